(* C19 -- correspondence checker: runs the GENERATED model (Gen/Gen_layout.v) on the inputs of a
   case and compares with what the implementation returned. *)
From Coq Require Import ZArith List Bool.
From PAV Require Import Base.Res Base.Check Gen.Gen_layout Model.C19.
Import ListNotations.
Local Open Scope Z_scope.

Definition agree (k : case) : bool :=
  match k with
  | KInit1 r out => r1e (Region1D_init r) out
  | KInit2 r out => r2e (Region2D_init r) out
  | KFront1 s p e out => r1e (Region1D_front_region_from s p e) out
  | KTrail1 s p out => r1e (Region1D_trailing_region_from s p) out
  | KParFront s p e out => r2e (Region2D_parallel_front_region_from s p e) out
  | KParTrail s p out => r2e (Region2D_parallel_trailing_region_from s p) out
  | KParFull s sh out => r2e (Region2D_parallel_full_region_from s sh) out
  | KSerFront s p e out => r2e (Region2D_serial_front_region_from s p e) out
  | KSerTrail s p out => r2e (Region2D_serial_trailing_region_from s p) out
  | KSerRoe s sh p out => r2e (Region2D_serial_towards_roe_full_region_from s sh p) out
  | KX0X1 a b c d out => prod_eqb (option_eqb Z.eqb) (option_eqb Z.eqb) (x0x1_after_extraction a b c d) out
  | KExtract o e out => or2e (region_after_extraction o e) out
  | KRotRegion r s c out => or2e (rotate_region_via_roe_corner_from r s c) out
  | KRotArray m c out => option_eqb arr_eqb (rotate_array_via_roe_corner_from m c) out
  | KCommute m r c out =>
      let s := shape_of m in
      match rotate_array_via_roe_corner_from m c, rotate_region_via_roe_corner_from (Some r) s c with
      | Some m', Ok (Some r') => arr_eqb (slice2 m' r') out
      | _, _ => false
      end
  | KTwice m r c out =>
      let s := shape_of m in
      match rotate_array_via_roe_corner_from m c with
      | Some m1 =>
          match rotate_array_via_roe_corner_from m1 c, rotate_region_via_roe_corner_from (Some r) s c with
          | Some m2, Ok (Some r1) =>
              match rotate_region_via_roe_corner_from (Some r1) s c with
              | Ok (Some r2) => prod_eqb arr_eqb reg2_eqb (m2, r2) out
              | _ => false
              end
          | _, _ => false
          end
      | None => false
      end
  end.

Definition check (k : case) : nat := verdict (agree k) (spec_ok k).
