(* C12 -- covariance of all geometry under translation of the coordinate origin.
   Executable model of
     geometry_util : central_pixel_coordinates_2d_from, central_scaled_coordinate_2d_from, pixel_coordinates_2d_from,
                     scaled_coordinates_2d_from, grid_pixels_2d_slim_from, grid_pixel_centres_2d_slim_from,
                     grid_pixel_indexes_2d_slim_from, grid_scaled_2d_slim_from
     grid_2d_util  : grid_2d_slim_via_mask_from, grid_2d_slim_via_shape_native_from, grid_2d_centre_from,
                     _radial_projected_shape_slim_from, grid_scaled_2d_slim_radial_projected_from
     over_sample_util.grid_2d_slim_over_sampled_via_mask_from,  Geometry2D.extent / scaled_maxima / scaled_minima
   and of the ORIGIN PLUMBING of the call sites (which pixel scales and which origin every entry point passes on):
     Grid2D.from_mask, Mask2D.derive_grid.{all_false,unmasked,edge,border}, derive_mask.*, Grid2D.blurring_grid_from,
     Grid2D.padded_grid_from, OverSamplerUniform.over_sampled_grid, BorderRelocator.sub_grid, Mask2D.mask_centre,
     Mask2D.zoom_{centre,offset_pixels,offset_scaled,region,shape_native,mask_unmasked}, Array2D.zoomed_around_mask,
     Grid2D.grid_2d_radial_projected_from (angle 0: [radial_projected]; any angle, given as the pair (cos, sin): [radial_projected_a]),
     BorderRelocator.sub_border_grid / relocated_grid_from / relocated_mesh_grid_from, derive_grid.edge / border with C10's models of
     the index lists ([edge_sel], [border_sel]), Mask2D.resized_from / rescaled_from, image_mesh.Overlay.image_plane_mesh_grid_from,
     the geometry of image_mesh.Hilbert (hilbert.image_and_grid_from), Mesh2DRectangular.overlay_grid + MapperRectangular,
     Imaging.apply_mask / apply_noise_scaling / trimmed_after_convolution_from, SimulatorImaging.via_image_from,
     preprocess.noise_map_with_signal_to_noise_limit_from.
   Every call site has a parameter-free definition that follows the (repaired) code; the seven call sites that dropped
   the origin before the fixes/C12_*.diff repairs are kept as [..._dropped] definitions (refuted in Proofs/C12.v).
   The independent specification is ORIGIN-FREE: every quantity is computed relative to the origin by a closed formula
   ("rel_..." below never mentions an origin) and the origin is added at the end.  No proofs here. *)
From Coq Require Import ZArith List Bool QArith.
From PAV Require Import Base.Res Base.Check Base.NumOps.
From PAV Require Model.C10.
Import ListNotations.
Local Open Scope Z_scope.

Definition mask := list (list bool).                 (* rows; true = masked *)
Definition rows (m : mask) : Z := Z.of_nat (length m).
Definition cols (m : mask) : Z := Z.of_nat (length (hd [] m)).
Definition px := (Z * Z)%type.

(* the row-major double loop `for y: for x: if not mask[y, x]` *)
Fixpoint row_unmasked (r : list bool) (y x : Z) : list px :=
  match r with
  | [] => []
  | b :: t => if b then row_unmasked t y (x + 1) else (y, x) :: row_unmasked t y (x + 1)
  end.
Fixpoint rows_unmasked (m : mask) (y : Z) : list px :=
  match m with
  | [] => []
  | r :: t => row_unmasked r y 0 ++ rows_unmasked t (y + 1)
  end.
Definition unmasked (m : mask) : list px := rows_unmasked m 0.
Definition all_false (H W : Z) : mask := repeat (repeat false (Z.to_nat W)) (Z.to_nat H).

(* numpy indexing mask[y, x] with a possibly negative / out-of-range index *)
Definition np_index (n i : Z) : option nat :=
  if (0 <=? i) && (i <? n) then Some (Z.to_nat i)
  else if (- n <=? i) && (i <? 0) then Some (Z.to_nat (i + n)) else None.
Definition np_get (m : mask) (y x : Z) : option bool :=
  match np_index (rows m) y, np_index (cols m) x with
  | Some i, Some j => Some (nth j (nth i m []) true)
  | _, _ => None
  end.

(* bounding box of the unmasked pixels: np.amin / np.amax over np.where(~mask) *)
Definition zmin_list (d : Z) (l : list Z) : Z := fold_left Z.min l d.
Definition zmax_list (d : Z) (l : list Z) : Z := fold_left Z.max l d.
Definition bbox (m : mask) : option (Z * Z * Z * Z) :=      (* y0, y1, x0, x1 inclusive *)
  match unmasked m with
  | [] => None
  | (y, x) :: t => Some (zmin_list y (map fst t), zmax_list y (map fst t), zmin_list x (map snd t), zmax_list x (map snd t))
  end.
(* Mask2D.zoom_region: the box made square; int(length_difference / 2.0) of a non-negative integer *)
Definition zoom_region (m : mask) : option (Z * Z * Z * Z) :=      (* y0, y1 + 1, x0, x1 + 1 *)
  match bbox m with
  | None => None
  | Some (y0, y1, x0, x1) =>
      let ylength := y1 - y0 in let xlength := x1 - x0 in
      if xlength <? ylength then
        let h := (ylength - xlength) / 2 in Some (y0, y1 + 1, x0 - h, x1 + h + 1)
      else if ylength <? xlength then
        let h := (xlength - ylength) / 2 in Some (y0 - h, y1 + h + 1, x0, x1 + 1)
      else Some (y0, y1 + 1, x0, x1 + 1)
  end.
Definition zoom_shape (m : mask) : option (Z * Z) :=
  match zoom_region m with Some (a, b, c, d) => Some (b - a, d - c) | None => None end.
Definition gather {A} (d : A) (l : list A) (idx : list nat) : list A := map (fun i => nth i l d) idx.
(* derive_indexes.edge_slim / border_slim: C10's models of mask_2d_util.edge_1d_indexes_from / border_slim_indexes_from *)
Definition edge_sel (m : mask) : list nat := map Z.to_nat (Model.C10.edge_slim m).
Definition border_sel (m : mask) : list nat := map Z.to_nat (Model.C10.border_slim m).

Section Model.
  Context {O : NumOps}.
  Notation T := (T O).
  Definition pt := (T * T)%type.
  Definition zpt : pt := (zero, zero).
  Definition padd (p d : pt) : pt := (add O (fst p) (fst d), add O (snd p) (snd d)).
  Definition psub (p d : pt) : pt := (sub O (fst p) (fst d), sub O (snd p) (snd d)).
  Definition shift (d : pt) (g : list pt) : list pt := map (fun p => padd p d) g.
  Definition oshift (d : pt) (x : option pt) : option pt := option_map (fun p => padd p d) x.
  Definition rshift (d : pt) (x : res (list pt)) : res (list pt) :=
    match x with Ok g => Ok (shift d g) | Raise e => Raise e end.

  (* ------------------------------------------------------------------ geometry_util *)
  Definition central_pixel (H W : Z) : pt := (div O (ofZ O (H - 1)) two, div O (ofZ O (W - 1)) two).
  Definition central_scaled (H W : Z) (ps o : pt) : pt :=
    let c := central_pixel H W in
    (add O (fst c) (div O (fst o) (fst ps)), sub O (snd c) (div O (snd o) (snd ps))).
  (* pixel_coordinates_2d_from: int((-y + o0)/ps0 + c0 + 0.5), int((x - o1)/ps1 + c1 + 0.5) *)
  Definition pixel_coordinates (H W : Z) (ps o p : pt) : px :=
    let c := central_pixel H W in
    (trunc (add O (add O (div O (add O (opp O (fst p)) (fst o)) (fst ps)) (fst c)) half),
     trunc (add O (add O (div O (sub O (snd p) (snd o)) (snd ps)) (snd c)) half)).
  (* scaled_coordinates_2d_from: ps0 * -(py - cs0), ps1 * (px - cs1) *)
  Definition scaled_coordinates (H W : Z) (ps o q : pt) : pt :=
    let cs := central_scaled H W ps o in
    (mul O (fst ps) (opp O (sub O (fst q) (fst cs))), mul O (snd ps) (sub O (snd q) (snd cs))).
  (* grid_pixels_2d_slim_from: (-y / ps0) + cs0 + 0.5, (x / ps1) + cs1 + 0.5 (floats) *)
  Definition grid_pixels (H W : Z) (ps o p : pt) : pt :=
    let cs := central_scaled H W ps o in
    (add O (add O (div O (opp O (fst p)) (fst ps)) (fst cs)) half,
     add O (add O (div O (snd p) (snd ps)) (snd cs)) half).
  Definition grid_pixel_centres (H W : Z) (ps o p : pt) : px :=
    let q := grid_pixels H W ps o p in (trunc (fst q), trunc (snd q)).
  Definition grid_pixel_indexes (H W : Z) (ps o p : pt) : Z :=
    let c := grid_pixel_centres H W ps o p in fst c * W + snd c.
  (* grid_scaled_2d_slim_from: -(py - cs0 - 0.5) * ps0, (px - cs1 - 0.5) * ps1 *)
  Definition grid_scaled_of_pixels (H W : Z) (ps o q : pt) : pt :=
    let cs := central_scaled H W ps o in
    (mul O (opp O (sub O (sub O (fst q) (fst cs)) half)) (fst ps),
     mul O (sub O (sub O (snd q) (snd cs)) half) (snd ps)).

  (* ------------------------------------------------------------------ grid_2d_util *)
  Definition centre_of_pixel (cs ps : pt) (p : px) : pt :=
    (mul O (opp O (sub O (ofZ O (fst p)) (fst cs))) (fst ps), mul O (sub O (ofZ O (snd p)) (snd cs)) (snd ps)).
  Definition grid_via_mask (m : mask) (ps o : pt) : list pt :=
    let cs := central_scaled (rows m) (cols m) ps o in map (centre_of_pixel cs ps) (unmasked m).
  Definition grid_via_shape (H W : Z) (ps o : pt) : list pt := grid_via_mask (all_false H W) ps o.

  (* grid_2d_centre_from: ((max + min) / 2, (max + min) / 2); np.max of an empty array raises -> None *)
  Definition maxl (x : T) (l : list T) : T := fold_left maxT l x.
  Definition minl (x : T) (l : list T) : T := fold_left minT l x.
  Definition grid_centre (g : list pt) : option pt :=
    match g with
    | [] => None
    | p :: t => Some (div O (add O (maxl (fst p) (map fst t)) (minl (fst p) (map fst t))) two,
                      div O (add O (maxl (snd p) (map snd t)) (minl (snd p) (map snd t))) two)
    end.
  (* Grid2D.shape_native_scaled_interior: (max - min, max - min) *)
  Definition interior (g : list pt) : option pt :=
    match g with
    | [] => None
    | p :: t => Some (sub O (maxl (fst p) (map fst t)) (minl (fst p) (map fst t)),
                      sub O (maxl (snd p) (map snd t)) (minl (snd p) (map snd t)))
    end.

  (* over_sample_util.grid_2d_slim_over_sampled_via_mask_from *)
  Definition zrange (n : Z) : list Z := map Z.of_nat (seq 0 (Z.to_nat n)).
  Definition sub_pixels (cs ps : pt) (p : px) (s : Z) : list pt :=
    let y_sub_half := div O (fst ps) two in let y_sub_step := div O (fst ps) (ofZ O s) in
    let x_sub_half := div O (snd ps) two in let x_sub_step := div O (snd ps) (ofZ O s) in
    let y_scaled := mul O (sub O (ofZ O (fst p)) (fst cs)) (fst ps) in
    let x_scaled := mul O (sub O (ofZ O (snd p)) (snd cs)) (snd ps) in
    flat_map (fun y1 => map (fun x1 =>
      (opp O (add O (add O (sub O y_scaled y_sub_half) (mul O (ofZ O y1) y_sub_step)) (div O y_sub_step two)),
       add O (add O (sub O x_scaled x_sub_half) (mul O (ofZ O x1) x_sub_step)) (div O x_sub_step two)))
      (zrange s)) (zrange s).
  Definition over_sampled (m : mask) (ps o : pt) (subs : list Z) : list pt :=
    let cs := central_scaled (rows m) (cols m) ps o in
    flat_map (fun pq => sub_pixels cs ps (fst pq) (snd pq)) (combine (unmasked m) subs).

  (* Geometry2D.extent = (x_min, x_max, y_min, y_max) *)
  Definition ext := (T * T * T * T)%type.
  Definition extent (H W : Z) (ps o : pt) : ext :=
    let sy := mul O (fst ps) (ofZ O H) in let sx := mul O (snd ps) (ofZ O W) in
    (add O (opp O (div O sx two)) (snd o), add O (div O sx two) (snd o),
     add O (opp O (div O sy two)) (fst o), add O (div O sy two) (fst o)).

  (* grid_scaled_2d_slim_radial_projected_from, followed by the two frame transforms at angle 0 *)
  Definition radial_scale (e : ext) (c ps : pt) : T * T :=          (* (scaled_distance, pixel_scale) *)
    let '(x0, x1, y0, y1) := e in
    let dpx := sub O x1 (snd c) in let dpy := sub O y1 (fst c) in
    let dnx := sub O (snd c) x0 in let dny := sub O (fst c) y0 in
    let sd := maxl dpx [dpy; dnx; dny] in
    (sd, if eqb O sd dpy || eqb O sd dny then fst ps else snd ps).
  Definition radial_shape (e : ext) (c ps : pt) (shape_slim : Z) : Z :=
    if shape_slim =? 0 then let sp := radial_scale e c ps in trunc (div O (fst sp) (snd sp)) + 1 else shape_slim.
  Fixpoint radii_from (n : nat) (r step : T) : list T :=
    match n with 0%nat => [] | S k => r :: radii_from k (add O r step) step end.
  (* transform_grid_2d_to_reference_frame(angle=0) then ..._from_reference_frame(angle=0) of a point with
     y = centre y on the +x ray: (radius * sin 0, radius * cos 0) + centre, radius = sqrt(sy^2 + sx^2) *)
  Definition frame0 (c p : pt) : pt :=
    let s := psub p c in (add O zero (fst c), add O (sqrtT O (add O (sq (fst s)) (sq (snd s)))) (snd c)).
  Definition radial_projected (e : ext) (c ps : pt) (shape_slim : Z) (remove_centre : bool) : list pt :=
    let n := radial_shape e c ps shape_slim in
    let g := map (fun r => frame0 c (add O zero (fst c), r)) (radii_from (Z.to_nat n) (snd c) (snd (radial_scale e c ps))) in
    if remove_centre then tl g else g.

  (* ------------------------------------------------------------------ the Mask2D object and its call sites *)
  Record mask2d := { mk : mask; mps : pt; morg : pt }.
  Definition translate (d : pt) (M : mask2d) : mask2d := {| mk := mk M; mps := mps M; morg := padd (morg M) d |}.
  Definition m_all_false (H W : Z) (ps o : pt) : mask2d := {| mk := all_false H W; mps := ps; morg := o |}.
  (* derive_mask.{all_false,edge,border,blurring_from,edge_buffed}, resized_from, rescaled_from:
     Mask2D(mask = f(np.array(mask)), pixel_scales = mask.pixel_scales, origin = mask.origin) *)
  Definition derive_mask (f : mask -> mask) (M : mask2d) : mask2d := {| mk := f (mk M); mps := mps M; morg := morg M |}.

  Definition from_mask (M : mask2d) : list pt := grid_via_mask (mk M) (mps M) (morg M).
  Definition derive_grid_all_false (M : mask2d) : list pt := grid_via_shape (rows (mk M)) (cols (mk M)) (mps M) (morg M).
  (* derive_grid.edge / border: unmasked[index list computed from np.array(mask) alone] *)
  Definition derive_grid_sel (sel : mask -> list nat) (M : mask2d) : list pt := gather zpt (from_mask M) (sel (mk M)).
  Definition blurring_grid_from (bl : mask -> mask) (M : mask2d) : list pt := from_mask (derive_mask bl M).
  Definition padded_shape (M : mask2d) (kh kw : Z) : Z * Z := (rows (mk M) + kh - 1, cols (mk M) + kw - 1).
  Definition padded_mask (M : mask2d) (kh kw : Z) : mask2d :=
    let s := padded_shape M kh kw in m_all_false (fst s) (snd s) (mps M) (morg M).
  Definition padded_grid_from (M : mask2d) (kh kw : Z) : list pt := from_mask (padded_mask M kh kw).
  (* Mask2D.trimmed_array_from(padded_array, image_shape) (also behind unmasked_blurred_array_from):
     Array2D.no_mask(native[p0//2 : H - p0//2, p1//2 : W - p1//2], pixel_scales, origin = self.origin) *)
  Definition trimmed_array_mask (M : mask2d) (ih iw : Z) : mask2d :=
    let H := rows (mk M) in let W := cols (mk M) in
    m_all_false (H - 2 * ((H - ih) / 2)) (W - 2 * ((W - iw) / 2)) (mps M) (morg M).
  Definition padded_grid_from_dropped (M : mask2d) (kh kw : Z) : list pt :=          (* before fixes/C12_padded_grid *)
    let s := padded_shape M kh kw in from_mask (m_all_false (fst s) (snd s) (mps M) zpt).
  (* Grid2D.subtracted_from(offset): values - offset on Mask2D(mask, pixel_scales, origin - offset) *)
  Definition subtracted_mask (M : mask2d) (off : pt) : mask2d := {| mk := mk M; mps := mps M; morg := psub (morg M) off |}.
  Definition subtracted_grid (M : mask2d) (off : pt) : list pt := map (fun p => psub p off) (from_mask M).
  Definition over_sampled_grid (M : mask2d) (subs : list Z) : list pt := over_sampled (mk M) (mps M) (morg M) subs.
  Definition mask_centre (M : mask2d) : option pt := grid_centre (from_mask M).
  Definition mask_extent (M : mask2d) : ext := extent (rows (mk M)) (cols (mk M)) (mps M) (morg M).

  (* zoom *)
  Definition zoom_centre (M : mask2d) : option pt :=
    match map (grid_pixels (rows (mk M)) (cols (mk M)) (mps M) (morg M)) (from_mask M) with
    | [] => None
    | p :: t => Some (div O (sub O (add O (maxl (fst p) (map fst t)) (minl (fst p) (map fst t))) one) two,
                      div O (sub O (add O (maxl (snd p) (map snd t)) (minl (snd p) (map snd t))) one) two)
    end.
  Definition zoom_offset_pixels (M : mask2d) : option pt :=
    match zoom_centre M with
    | Some z => Some (psub z (central_pixel (rows (mk M)) (cols (mk M))))
    | None => None
    end.
  Definition zoom_offset_scaled (M : mask2d) : option pt :=
    match zoom_offset_pixels M with
    | Some f => Some (mul O (opp O (fst (mps M))) (fst f), mul O (snd (mps M)) (snd f))
    | None => None
    end.
  Definition zoom_mask_unmasked (M : mask2d) : option mask2d :=
    match zoom_shape (mk M), zoom_offset_scaled M with
    | Some s, Some f => Some (m_all_false (fst s) (snd s) (mps M) (padd (morg M) f))
    | _, _ => None
    end.
  Definition zoom_mask_unmasked_dropped (M : mask2d) : option mask2d :=               (* before fixes/C12_zoom_mask *)
    match zoom_shape (mk M), zoom_offset_scaled M with
    | Some s, Some f => Some (m_all_false (fst s) (snd s) (mps M) f)
    | _, _ => None
    end.
  (* Array2D.zoomed_around_mask: Mask2D.all_false(extracted shape, pixel_scales, origin = mask.mask_centre) *)
  Definition zoomed_around_mask (M : mask2d) (buffer : Z) : option mask2d :=
    match zoom_region (mk M), mask_centre M with
    | Some (y0, y1, x0, x1), Some c => Some (m_all_false ((y1 + buffer) - (y0 - buffer)) ((x1 + buffer) - (x0 - buffer)) (mps M) c)
    | _, _ => None
    end.
  Definition radial_projected_from (M : mask2d) (c : pt) (shape_slim : Z) (remove_centre : bool) : list pt :=
    radial_projected (mask_extent M) c (mps M) shape_slim remove_centre.
  (* the same at ANY angle.  transform_grid_2d_to_reference_frame(grid, centre, angle):
       shifted = p - centre; radius = sqrt(shifted_y^2 + shifted_x^2); theta = arctan2(shifted_y, shifted_x) - radians(angle);
       (radius * sin theta, radius * cos theta)
     Every projected point has shifted_y = 0 and shifted_x >= 0, so theta is the SAME number for all of them; the model takes
     the pair [cssn] = (cos theta, sin theta) as a parameter (nothing is assumed about it here).  Then
     transform_grid_2d_from_reference_frame(grid, centre, angle = 0.0) with cos 0 = 1, sin 0 = 0:
       y = (x' * 0 + y' * 1) + centre_y,  x = (x' * 1 + -(y' * 0)) + centre_x *)
  Definition frame_a (cssn c p : pt) : pt :=
    let s := psub p c in
    let radius := sqrtT O (add O (sq (fst s)) (sq (snd s))) in
    let y1 := mul O radius (snd cssn) in let x1 := mul O radius (fst cssn) in
    (add O (add O (mul O x1 zero) (mul O y1 one)) (fst c), add O (add O (mul O x1 one) (opp O (mul O y1 zero))) (snd c)).
  Definition radial_projected_a (cssn : pt) (e : ext) (c ps : pt) (shape_slim : Z) (remove_centre : bool) : list pt :=
    let n := radial_shape e c ps shape_slim in
    let g := map (fun r => frame_a cssn c (add O zero (fst c), r)) (radii_from (Z.to_nat n) (snd c) (snd (radial_scale e c ps))) in
    if remove_centre then tl g else g.
  Definition radial_projected_from_a (cssn : pt) (M : mask2d) (c : pt) (shape_slim : Z) (remove_centre : bool) : list pt :=
    radial_projected_a cssn (mask_extent M) c (mps M) shape_slim remove_centre.
  (* BorderRelocator.sub_border_grid = sub_grid[sub_border_slim] *)
  Definition sub_border_grid (M : mask2d) (subs : list Z) (idx : list nat) : list pt := gather zpt (over_sampled_grid M subs) idx.

  (* image_mesh.Overlay.image_plane_mesh_grid_from; [oc] is the origin handed to grid_pixel_centres_2d_slim_from *)
  Definition overlay_with (oc : pt) (M : mask2d) (sy sx : Z) : res (list pt) :=
    let g := from_mask M in
    match interior g, grid_centre g with
    | Some i, Some c =>
        let ps' := (div O (add O (fst i) (fst (mps M))) (ofZ O sy), div O (add O (snd i) (snd (mps M))) (ofZ O sx)) in
        let ug := grid_via_shape sy sx ps' c in
        let cen := map (grid_pixel_centres (rows (mk M)) (cols (mk M)) (mps M) oc) ug in
        if forallb (fun q => match np_get (mk M) (fst q) (snd q) with Some _ => true | None => false end) cen then
          Ok (map fst (filter (fun pq => match np_get (mk M) (fst (snd pq)) (snd (snd pq)) with
                                         | Some b => negb b | None => false end) (combine ug cen)))
        else Raise IndexError
    | _, _ => Raise OtherException
    end.
  Definition overlay (M : mask2d) (sy sx : Z) : res (list pt) := overlay_with (morg M) M sy sx.
  Definition overlay_dropped (M : mask2d) (sy sx : Z) : res (list pt) := overlay_with zpt M sy sx.   (* before fixes/C12_overlay *)

  (* hilbert.image_and_grid_from: positions of the adapt image's pixels and the Hilbert-curve points kept by the
     radius cut; [curve] = grid_hilbert_order_from(length, mask_radius) as (y, x) pairs (origin-free by construction) *)
  Definition hilbert_image_grid (M : mask2d) (n : Z) : list pt := grid_via_shape n n (mps M) (morg M).
  Definition hilbert_image_grid_dropped (M : mask2d) (n : Z) : list pt := grid_via_shape n n (mps M) zpt.
  Definition hilbert_cut (curve : list pt) (radius : T) : list pt :=
    filter (fun p => leb O (sqrtT O (add O (sq (fst p)) (sq (snd p)))) radius) curve.
  Definition hilbert_curve_grid (M : mask2d) (curve : list pt) (radius : T) : list pt :=
    shift (morg M) (hilbert_cut curve radius).
  Definition hilbert_curve_grid_dropped (M : mask2d) (curve : list pt) (radius : T) : list pt := hilbert_cut curve radius.

  (* Mesh2DRectangular.overlay_grid(shape, grid, buffer) and MapperRectangular.pix_sub_weights.mappings *)
  Record rmesh := { r_shape : Z * Z; r_ps : pt; r_org : pt }.
  Definition rect_overlay_grid (sy sx : Z) (g : list pt) (buffer : T) : option rmesh :=
    match g with
    | [] => None
    | p :: t =>
        let y_min := sub O (minl (fst p) (map fst t)) buffer in let y_max := add O (maxl (fst p) (map fst t)) buffer in
        let x_min := sub O (minl (snd p) (map snd t)) buffer in let x_max := add O (maxl (snd p) (map snd t)) buffer in
        Some {| r_shape := (sy, sx);
                r_ps := (div O (sub O y_max y_min) (ofZ O sy), div O (sub O x_max x_min) (ofZ O sx));
                r_org := (div O (add O y_max y_min) two, div O (add O x_max x_min) two) |}
    end.
  Definition rect_mesh_grid (r : rmesh) : list pt := grid_via_shape (fst (r_shape r)) (snd (r_shape r)) (r_ps r) (r_org r).
  Definition rect_mappings (r : rmesh) (g : list pt) : list Z :=
    map (grid_pixel_indexes (fst (r_shape r)) (snd (r_shape r)) (r_ps r) (r_org r)) g.
  Definition rect_mapper (sy sx : Z) (g : list pt) (buffer : T) : option (list Z) :=
    match rect_overlay_grid sy sx g buffer with Some r => Some (rect_mappings r g) | None => None end.

  (* ------------------------------------------------------------------ datasets: which mask the returned data carry *)
  Record imaging := { i_data : mask2d; i_noise : mask2d }.
  Definition same_shape_all_false (A : mask2d) (o : pt) : mask2d := m_all_false (rows (mk A)) (cols (mk A)) (mps A) o.
  (* Imaging.apply_mask: Array2D(values = native, mask = mask) for data and noise map; Imaging.__init__(pad_for_convolver=True)
     then pads both with padded_before_convolution_from -> mask.resized_from when the blurring region leaves the frame
     ([pad] = identity otherwise) *)
  Definition apply_mask (pad : mask -> mask) (ds : imaging) (M : mask2d) : imaging :=
    {| i_data := derive_mask pad M; i_noise := derive_mask pad M |}.
  (* Imaging.apply_noise_scaling: Array2D.no_mask(values, shape_native, pixel_scales, origin = self.data.origin) *)
  Definition apply_noise_scaling (ds : imaging) : imaging :=
    let a := same_shape_all_false (i_data ds) (morg (i_data ds)) in {| i_data := a; i_noise := a |}.
  Definition apply_noise_scaling_dropped (ds : imaging) : imaging :=                  (* before fixes/C12_noise_scaling *)
    let a := same_shape_all_false (i_data ds) zpt in {| i_data := a; i_noise := a |}.
  (* AbstractDataset.trimmed_after_convolution_from: mask.resized_from(new_shape) of each array *)
  Definition trimmed (rz : mask -> mask) (ds : imaging) : imaging :=
    {| i_data := derive_mask rz (i_data ds); i_noise := derive_mask rz (i_noise ds) |}.
  (* SimulatorImaging.via_image_from(image); the Poisson noise map inherits the image's own mask *)
  Definition simulate (image : mask2d) (poisson_noise_map : bool) : imaging :=
    let a := same_shape_all_false image (morg image) in
    {| i_data := a; i_noise := if poisson_noise_map then image else a |}.
  Definition simulate_dropped (image : mask2d) (poisson_noise_map : bool) : imaging :=   (* before fixes/C12_simulator *)
    let a := same_shape_all_false image zpt in
    {| i_data := a; i_noise := if poisson_noise_map then image else a |}.
  (* preprocess.noise_map_with_signal_to_noise_limit_from *)
  Definition s2n_limited (data : mask2d) : mask2d := same_shape_all_false data (morg data).
  Definition s2n_limited_dropped (data : mask2d) : mask2d := same_shape_all_false data zpt.   (* before fixes/C12_s2n_limit *)
  Definition dataset_grid (ds : imaging) : list pt := from_mask (i_data ds).                  (* GridsDataset.uniform *)

  (* ================================================================== origin-free specification *)
  Definition centre_px (H W : Z) : pt := (div O (ofZ O (H - 1)) two, div O (ofZ O (W - 1)) two).
  (* centre of pixel (y, x) relative to the origin: ((H-1)/2 - y) * ps_y, (x - (W-1)/2) * ps_x *)
  Definition rel_centre (H W : Z) (ps : pt) (p : px) : pt :=
    let c := centre_px H W in
    (mul O (sub O (fst c) (ofZ O (fst p))) (fst ps), mul O (sub O (ofZ O (snd p)) (snd c)) (snd ps)).
  Definition rel_grid (m : mask) (ps : pt) : list pt := map (rel_centre (rows m) (cols m) ps) (unmasked m).
  Definition rel_sub (H W : Z) (ps : pt) (p : px) (s : Z) : list pt :=
    let c := rel_centre H W ps p in
    flat_map (fun y1 => map (fun x1 =>
      (sub O (add O (fst c) (div O (fst ps) two)) (mul O (add O (ofZ O y1) half) (div O (fst ps) (ofZ O s))),
       add O (sub O (snd c) (div O (snd ps) two)) (mul O (add O (ofZ O x1) half) (div O (snd ps) (ofZ O s)))))
      (zrange s)) (zrange s).
  Definition rel_over (m : mask) (ps : pt) (subs : list Z) : list pt :=
    flat_map (fun pq => rel_sub (rows m) (cols m) ps (fst pq) (snd pq)) (combine (unmasked m) subs).
  Definition rel_extent (H W : Z) (ps : pt) : ext :=
    let hy := div O (mul O (ofZ O H) (fst ps)) two in let hx := div O (mul O (ofZ O W) (snd ps)) two in
    (opp O hx, hx, opp O hy, hy).
  Definition ext_shift (d : pt) (e : ext) : ext :=
    let '(x0, x1, y0, y1) := e in (add O x0 (snd d), add O x1 (snd d), add O y0 (fst d), add O y1 (fst d)).
  (* pixel that contains the point at position [r] relative to the origin *)
  Definition rel_pixel (H W : Z) (ps r : pt) : px :=
    let c := centre_px H W in
    (trunc (add O (sub O (fst c) (div O (fst r) (fst ps))) half), trunc (add O (add O (snd c) (div O (snd r) (snd ps))) half)).
  Definition rel_pixel_float (H W : Z) (ps r : pt) : pt :=
    let c := centre_px H W in
    (add O (sub O (fst c) (div O (fst r) (fst ps))) half, add O (add O (snd c) (div O (snd r) (snd ps))) half).
  Definition rel_of_pixel (H W : Z) (ps q : pt) : pt :=          (* float pixel coordinate (top-left based) -> position *)
    let c := centre_px H W in
    (mul O (sub O (add O (fst c) half) (fst q)) (fst ps), mul O (sub O (sub O (snd q) half) (snd c)) (snd ps)).
  Definition rel_of_pixel_centre (H W : Z) (ps q : pt) : pt :=   (* scaled_coordinates_2d_from: pixel-centre based *)
    let c := centre_px H W in
    (mul O (sub O (fst c) (fst q)) (fst ps), mul O (sub O (snd q) (snd c)) (snd ps)).
  (* centre of the bounding box of the unmasked pixels, relative to the origin *)
  Definition rel_box_centre (m : mask) (ps : pt) : option pt :=
    match bbox m with
    | Some (y0, y1, x0, x1) =>
        let a := rel_centre (rows m) (cols m) ps (y0, x0) in let b := rel_centre (rows m) (cols m) ps (y1, x1) in
        Some (div O (add O (fst a) (fst b)) two, div O (add O (snd a) (snd b)) two)
    | None => None
    end.
  (* radial projection: the i-th point lies at distance i * step from the centre in the direction (sin, cos) of the angle;
     everything is computed from the centre's position [r] relative to the origin *)
  Definition rel_radial_scale (H W : Z) (ps r : pt) : T * T :=
    let hy := div O (mul O (ofZ O H) (fst ps)) two in let hx := div O (mul O (ofZ O W) (snd ps)) two in
    let dpx := sub O hx (snd r) in let dpy := sub O hy (fst r) in let dnx := add O (snd r) hx in let dny := add O (fst r) hy in
    let sd := maxT (maxT (maxT dpx dpy) dnx) dny in
    (sd, if eqb O sd dpy || eqb O sd dny then fst ps else snd ps).
  Definition rel_radial_a (cssn : pt) (H W : Z) (ps r : pt) (shape_slim : Z) (remove_centre : bool) : list pt :=
    let sp := rel_radial_scale H W ps r in
    let n := if shape_slim =? 0 then trunc (div O (fst sp) (snd sp)) + 1 else shape_slim in
    let g := map (fun i => let rho := mul O (ofZ O i) (snd sp) in
                           (add O (fst r) (mul O rho (snd cssn)), add O (snd r) (mul O rho (fst cssn)))) (zrange n) in
    if remove_centre then tl g else g.
  Definition rel_radial := rel_radial_a (one, zero).          (* angle 0: x_i = c_x + i * step, all at y = c_y *)
  (* centre of the bounding box in pixel units: Mask2D.zoom_centre *)
  Definition rel_zoom_centre (m : mask) : option pt :=
    match bbox m with
    | Some (y0, y1, x0, x1) => Some (div O (ofZ O (y0 + y1)) two, div O (ofZ O (x0 + x1)) two)
    | None => None
    end.
  (* overlay, origin-free *)
  Definition rel_overlay (m : mask) (ps : pt) (sy sx : Z) : res (list pt) :=
    let H := rows m in let W := cols m in
    match bbox m with
    | Some (y0, y1, x0, x1) =>
        let ps' := (div O (mul O (ofZ O (y1 - y0 + 1)) (fst ps)) (ofZ O sy), div O (mul O (ofZ O (x1 - x0 + 1)) (snd ps)) (ofZ O sx)) in
        match rel_box_centre m ps with
        | Some c =>
            let ug := map (fun p => padd (rel_centre sy sx ps' p) c) (unmasked (all_false sy sx)) in
            let cen := map (rel_pixel H W ps) ug in
            if forallb (fun q => match np_get m (fst q) (snd q) with Some _ => true | None => false end) cen then
              Ok (map fst (filter (fun pq => match np_get m (fst (snd pq)) (snd (snd pq)) with
                                             | Some b => negb b | None => false end) (combine ug cen)))
            else Raise IndexError
        | None => Raise OtherException
        end
    | None => Raise OtherException
    end.
  Definition rel_hilbert_cut (curve : list pt) (radius : T) : list pt :=
    filter (fun p => leb O zero radius && leb O (add O (sq (fst p)) (sq (snd p))) (sq radius)) curve.
  (* rectangular mapper: mesh box = bounding box of the grid + buffer; pixel of a point by its position in the box *)
  Definition rel_rect_mapper (sy sx : Z) (g : list pt) (buffer : T) : option (list Z) :=
    match g with
    | [] => None
    | p :: t =>
        let y_min := sub O (minl (fst p) (map fst t)) buffer in let y_max := add O (maxl (fst p) (map fst t)) buffer in
        let x_min := sub O (minl (snd p) (map snd t)) buffer in let x_max := add O (maxl (snd p) (map snd t)) buffer in
        let c := (div O (add O y_max y_min) two, div O (add O x_max x_min) two) in
        let ps' := (div O (sub O y_max y_min) (ofZ O sy), div O (sub O x_max x_min) (ofZ O sx)) in
        Some (map (fun q => let k := rel_pixel sy sx ps' (psub q c) in fst k * sx + snd k) g)
    end.
End Model.

(* ---------------------------------------------------------------------- the 1-D variants: geometry_util.*_1d_*,
   grid_1d_util.grid_1d_slim_via_mask_from / grid_1d_slim_via_shape_slim_from (Grid1D.from_mask, Grid1D.uniform,
   Mask1D.derive_grid.all_false), Geometry1D.extent *)
Section OneD.
  Context {O : NumOps}.
  Notation T := (T O).
  Definition unmasked_1d (r : list bool) : list Z := map snd (row_unmasked r 0 0).
  Definition len1 (r : list bool) : Z := Z.of_nat (length r).
  (* central_scaled_coordinate_1d_from: (n - 1) / 2 - origin / pixel_scale *)
  Definition central_scaled_1d (n : Z) (ps o : T) : T := sub O (div O (ofZ O (n - 1)) two) (div O o ps).
  (* grid_1d_slim_via_mask_from: (x - centres_scaled) * pixel_scale for the unmasked x *)
  Definition grid_1d_via_mask (r : list bool) (ps o : T) : list T :=
    let cs := central_scaled_1d (len1 r) ps o in map (fun x => mul O (sub O (ofZ O x) cs) ps) (unmasked_1d r).
  Definition grid_1d_all_false (r : list bool) (ps o : T) : list T := grid_1d_via_mask (repeat false (length r)) ps o.
  (* Geometry1D.extent = (-(ps * n) / 2 + o, (ps * n) / 2 + o) *)
  Definition extent_1d (n : Z) (ps o : T) : T * T :=
    let s := mul O ps (ofZ O n) in (add O (opp O (div O s two)) o, add O (div O s two) o).
  (* pixel_coordinates_1d_from: int((x - o) / ps + (n - 1) / 2 + 0.5) *)
  Definition pixel_coordinates_1d (n : Z) (ps o x : T) : Z :=
    trunc (add O (add O (div O (sub O x o) ps) (div O (ofZ O (n - 1)) two)) half).
  (* scaled_coordinates_1d_from: ps * (q - centres_scaled) *)
  Definition scaled_coordinates_1d (n : Z) (ps o q : T) : T := mul O ps (sub O q (central_scaled_1d n ps o)).
  (* origin-free closed forms *)
  Definition rel_grid_1d (r : list bool) (ps : T) : list T :=
    map (fun x => mul O (sub O (ofZ O x) (div O (ofZ O (len1 r - 1)) two)) ps) (unmasked_1d r).
  Definition rel_extent_1d (n : Z) (ps : T) : T * T := let s := mul O ps (ofZ O n) in (opp O (div O s two), div O s two).
  Definition rel_pixel_1d (n : Z) (ps x : T) : Z := trunc (add O (add O (div O x ps) (div O (ofZ O (n - 1)) two)) half).
  Definition rel_scaled_1d (n : Z) (ps q : T) : T := mul O ps (sub O q (div O (ofZ O (n - 1)) two)).
  Definition shift1 (d : T) (l : list T) : list T := map (fun v => add O v d) l.
End OneD.

(* ---------------------------------------------------------------------- grid_2d_util.relocated_grid_via_jit_from and
   BorderRelocator.relocated_grid_from (C18 owns the relocation law; here: its behaviour under a common translation) *)
Section Reloc.
  Context {O : NumOps}.
  Notation T := (T O).
  Definition meanT (l : list T) : T := div O (sumT l) (ofNat (length l)).                       (* np.mean *)
  Definition radius (bo p : @pt O) : T :=
    sqrtT O (add O (sq (sub O (fst p) (fst bo))) (sq (sub O (snd p) (snd bo)))).
  Definition dist2 (p b : @pt O) : T := add O (sq (sub O (fst p) (fst b))) (sq (sub O (snd p) (snd b))).
  (* np.argmin: first index of the minimum *)
  Fixpoint argmin_from (l : list T) (i best : nat) (bv : T) : nat :=
    match l with
    | [] => best
    | v :: t => if ltb O v bv then argmin_from t (S i) i v else argmin_from t (S i) best bv
    end.
  Definition argmin (l : list T) : nat := match l with [] => 0%nat | v :: t => argmin_from t 1 0 v end.
  Definition relocate (g bg : list (@pt O)) : list (@pt O) :=
    let bo := (meanT (map fst bg), meanT (map snd bg)) in
    let brad := map (radius bo) bg in
    match brad with
    | [] => g          (* BorderRelocator.relocated_grid_from returns the grid itself when the border is empty *)
    | r0 :: rt =>
        let bmin := minl r0 rt in
        map (fun p =>
          let r := radius bo p in
          if ltb O bmin r then
            let c := argmin (map (dist2 p) bg) in
            let mf := div O (nth c brad zero) r in
            if ltb O mf one then
              (add O (mul O mf (sub O (fst p) (fst bo))) (fst bo), add O (mul O mf (sub O (snd p) (snd bo))) (snd bo))
            else p
          else p) g
    end.
  (* BorderRelocator.relocated_grid_from(grid): border_grid = grid[sub_border_slim] *)
  Definition relocated_grid_from (sub_border_slim : list nat) (g : list (@pt O)) : list (@pt O) :=
    relocate g (gather zpt g sub_border_slim).
  (* BorderRelocator.relocated_mesh_grid_from(grid, mesh_grid): the mesh is relocated against the border of the DATA grid *)
  Definition relocated_mesh_grid_from (sub_border_slim : list nat) (g mesh : list (@pt O)) : list (@pt O) :=
    relocate mesh (gather zpt g sub_border_slim).
End Reloc.

(* ====================================================================== correspondence cases (exact rationals) *)
Definition qpt : Type := @pt QOps.
Definition qpt_eqb (a b : qpt) : bool := Qeq_bool (fst a) (fst b) && Qeq_bool (snd a) (snd b).
Definition qg_eqb := list_eqb qpt_eqb.
Definition zz_eqb (a b : Z * Z) : bool := (fst a =? fst b) && (snd a =? snd b).
Definition QM := @mask2d QOps.
Definition mkM (m : mask) (ps o : qpt) : QM := @Build_mask2d QOps m ps o.
Definition geom := (Z * Z * qpt * qpt)%type.                       (* shape, pixel scales, origin of a returned mask *)
Definition geom_eqb (a b : geom) : bool :=
  let '(h, w, p, o) := a in let '(h', w', p', o') := b in (h =? h') && (w =? w') && qpt_eqb p p' && qpt_eqb o o'.
Definition geom_of (M : QM) : geom := (rows (mk M), cols (mk M), mps M, morg M).
Definition qext_eqb (a b : Q * Q * Q * Q) : bool :=
  let '(a0, a1, a2, a3) := a in let '(b0, b1, b2, b3) := b in
  Qeq_bool a0 b0 && Qeq_bool a1 b1 && Qeq_bool a2 b2 && Qeq_bool a3 b3.

Inductive gop :=
| GFromMask | GAllFalse | GEdge | GBorder | GSel (idx : list nat) | GDerived (bm : mask) | GPadded (kh kw : Z) | GOver (subs : list Z)
| GOverSel (subs : list Z) (idx : list nat)
| GRadial (c : qpt) (shape_slim : Z) (remove_centre : bool) | GOverlay (sy sx : Z)
| GHilbertImage (n : Z) | GHilbertCurve (curve : list qpt) (radius : Q)
| GScaledOfPixels (pix : list qpt) | GScaledOfPixelCentres (pix : list qpt) | GSubtracted (off : qpt).
Inductive mop := MZoomUnmasked | MZoomedAround (buffer : Z) | MPadded (kh kw : Z) | MTrimmedArray (ih iw : Z) | MSubtracted (off : qpt).
Inductive pop := PMaskCentre | PZoomOffsetScaled | PZoomCentre | PZoomOffsetPixels.
Inductive dop := DApplyMask (padded : mask) | DNoiseScaling | DTrimmed (rz_data rz_noise : mask) | DSimulate (poisson : bool) | DS2N.

Definition gop_model (op : gop) (M : QM) : res (list qpt) :=
  match op with
  | GFromMask => Ok (from_mask M)
  | GAllFalse => Ok (derive_grid_all_false M)
  | GSel idx => Ok (derive_grid_sel (fun _ => idx) M)
  | GEdge => Ok (derive_grid_sel edge_sel M)
  | GBorder => Ok (derive_grid_sel border_sel M)
  | GDerived bm => Ok (blurring_grid_from (fun _ => bm) M)
  | GPadded kh kw => Ok (padded_grid_from M kh kw)
  | GOver subs => Ok (over_sampled_grid M subs)
  | GOverSel subs idx => Ok (sub_border_grid M subs idx)
  | GRadial c ss rm => Ok (radial_projected_from M c ss rm)
  | GOverlay sy sx => overlay M sy sx
  | GHilbertImage n => Ok (hilbert_image_grid M n)
  | GHilbertCurve curve r => Ok (hilbert_curve_grid M curve r)
  | GScaledOfPixels pix => Ok (map (grid_scaled_of_pixels (rows (mk M)) (cols (mk M)) (mps M) (morg M)) pix)
  | GScaledOfPixelCentres pix => Ok (map (scaled_coordinates (rows (mk M)) (cols (mk M)) (mps M) (morg M)) pix)
  | GSubtracted off => Ok (subtracted_grid M off)
  end.
Definition gop_spec (op : gop) (M : QM) : res (list qpt) :=
  let m := mk M in let ps := mps M in let o := morg M in let H := rows m in let W := cols m in
  match op with
  | GFromMask => Ok (shift o (rel_grid m ps))
  | GAllFalse => Ok (shift o (rel_grid (all_false H W) ps))
  | GSel idx => Ok (gather (@zpt QOps) (shift o (rel_grid m ps)) idx)
  | GEdge => Ok (gather (@zpt QOps) (shift o (rel_grid m ps)) (edge_sel m))
  | GBorder => Ok (gather (@zpt QOps) (shift o (rel_grid m ps)) (border_sel m))
  | GDerived bm => Ok (shift o (rel_grid bm ps))
  | GPadded kh kw => Ok (shift o (rel_grid (all_false (H + kh - 1) (W + kw - 1)) ps))
  | GOver subs => Ok (shift o (rel_over m ps subs))
  | GOverSel subs idx => Ok (gather (@zpt QOps) (shift o (rel_over m ps subs)) idx)
  | GRadial c ss rm => Ok (shift o (rel_radial H W ps (psub c o) ss rm))
  | GOverlay sy sx => rshift o (rel_overlay m ps sy sx)
  | GHilbertImage n => Ok (shift o (rel_grid (all_false n n) ps))
  | GHilbertCurve curve r => Ok (shift o (rel_hilbert_cut curve r))
  | GScaledOfPixels pix => Ok (shift o (map (rel_of_pixel H W ps) pix))
  | GScaledOfPixelCentres pix => Ok (shift o (map (rel_of_pixel_centre H W ps) pix))
  | GSubtracted off => Ok (shift (psub o off) (rel_grid m ps))
  end.

Definition mop_model (op : mop) (M : QM) : option geom :=
  match op with
  | MZoomUnmasked => option_map geom_of (zoom_mask_unmasked M)
  | MZoomedAround b => option_map geom_of (zoomed_around_mask M b)
  | MPadded kh kw => Some (geom_of (padded_mask M kh kw))
  | MTrimmedArray ih iw => Some (geom_of (trimmed_array_mask M ih iw))
  | MSubtracted off => Some (geom_of (subtracted_mask M off))
  end.
Definition mop_spec (op : mop) (M : QM) : option geom :=
  let m := mk M in let ps := mps M in let o := morg M in
  match op with
  | MZoomUnmasked =>
      match zoom_shape m, rel_box_centre m ps with
      | Some s, Some c => Some (fst s, snd s, ps, padd c o) | _, _ => None end
  | MZoomedAround b =>
      match zoom_region m, rel_box_centre m ps with
      | Some (y0, y1, x0, x1), Some c => Some (y1 - y0 + 2 * b, x1 - x0 + 2 * b, ps, padd c o) | _, _ => None end
  | MPadded kh kw => Some (rows m + kh - 1, cols m + kw - 1, ps, o)
  | MTrimmedArray ih iw => Some (rows m - 2 * ((rows m - ih) / 2), cols m - 2 * ((cols m - iw) / 2), ps, o)
  | MSubtracted off => Some (rows m, cols m, ps, psub o off)
  end.

Definition pop_model (op : pop) (M : QM) : option qpt :=
  match op with
  | PMaskCentre => mask_centre M
  | PZoomOffsetScaled => zoom_offset_scaled M
  | PZoomCentre => zoom_centre M
  | PZoomOffsetPixels => zoom_offset_pixels M
  end.
Definition pop_spec (op : pop) (M : QM) : option qpt :=
  let m := mk M in let ps := mps M in let o := morg M in
  match op with
  | PMaskCentre => oshift o (rel_box_centre m ps)
  | PZoomOffsetScaled => rel_box_centre m ps
  | PZoomCentre => @rel_zoom_centre QOps m
  | PZoomOffsetPixels => option_map (fun z => psub z (@centre_px QOps (rows m) (cols m))) (@rel_zoom_centre QOps m)
  end.

Definition dop_model (op : dop) (data noise arg : QM) : geom * geom :=
  let ds := @Build_imaging QOps data noise in
  let r := match op with
           | DApplyMask pm => apply_mask (fun _ => pm) ds arg
           | DNoiseScaling => apply_noise_scaling ds
           | DTrimmed rd rn => {| i_data := derive_mask (fun _ => rd) data; i_noise := derive_mask (fun _ => rn) noise |}
           | DSimulate p => simulate data p
           | DS2N => let a := s2n_limited data in {| i_data := a; i_noise := a |}
           end in
  (geom_of (i_data r), geom_of (i_noise r)).
(* specification: the returned data and noise map sit on the frame of the structure they were computed from *)
Definition dop_spec (op : dop) (data noise arg : QM) : geom * geom :=
  match op with
  | DApplyMask pm => let g := (rows pm, cols pm, mps arg, morg arg) in (g, g)
  | DNoiseScaling | DS2N => (geom_of data, geom_of data)
  | DTrimmed rd rn => ((rows rd, cols rd, mps data, morg data), (rows rn, cols rn, mps noise, morg noise))
  | DSimulate p => (geom_of data, geom_of (if p then noise else data))
  end.

(* tolerances are per axis and RELATIVE to the scale of the case: the harness passes 1e-9 * (pixel scale of the axis) *)
Definition qpt_close (tol : qpt) (a b : qpt) : bool := Qabs_le_tol (fst tol) (fst a) (fst b) && Qabs_le_tol (snd tol) (snd a) (snd b).
Definition tol2 (tol : qpt) : qpt := ((2 * fst tol)%Q, (2 * snd tol)%Q).

Inductive obs :=
| KGrid (op : gop) (M : QM) (out : res (list qpt))
| KGeom (op : mop) (M : QM) (out : option geom)
| KPoint (op : pop) (M : QM) (out : option qpt)
| KExtent (M : QM) (out : Q * Q * Q * Q)
| KPixelCoords (M : QM) (pts : list qpt) (out : list (Z * Z))      (* Geometry2D.pixel_coordinates_2d_from, per point *)
| KPixelCentres (M : QM) (pts : list qpt) (out : list (Z * Z))     (* Geometry2D.grid_pixel_centres_2d_from *)
| KPixelIndexes (M : QM) (pts : list qpt) (out : list Z)           (* Geometry2D.grid_pixel_indexes_2d_from *)
| KPixelFloats (M : QM) (pts : list qpt) (out : list qpt)          (* Geometry2D.grid_pixels_2d_from *)
| KRect (sy sx : Z) (g : list qpt) (buffer : Q) (out_ps out_org : qpt) (out_mesh : list qpt) (out_map : list Z)
| KDataset (op : dop) (data noise arg : QM) (out : geom * geom)
| KReloc (idx : list nat) (g : list qpt) (mesh : option (list qpt)) (tol : qpt) (out : list qpt)
    (* BorderRelocator.relocated_grid_from (mesh = None) / relocated_mesh_grid_from (Some mesh); tolerance [tol] *)
| KRadialA (M : QM) (c cssn : qpt) (shape_slim : Z) (remove_centre : bool) (tol : qpt) (out : list qpt)
| K1D (axis : bool) (r : list bool) (ps o : Q) (out_grid out_all : list Q) (out_ext : Q * Q) (pts : list Q) (out_pix : list Z)
      (pix : list Q) (out_scaled : list Q).
    (* the 1-D variants on the frame (len r, ps, o): Grid1D.from_mask, Mask1D.derive_grid.all_false, Geometry1D.extent,
       pixel_coordinates_1d_from of [pts], scaled_coordinates_1d_from of [pix]; [axis]: which component of d translates it *)
    (* Grid2D.grid_2d_radial_projected_from at any angle; [cssn] = (cos, sin) of the common theta as the doubles numpy returned *)

Definition ql_eqb := list_eqb Qeq_bool.
Definition agree1 (k : obs) : bool :=
  match k with
  | KGrid op M out => res_eqb qg_eqb (gop_model op M) out
  | KGeom op M out => option_eqb geom_eqb (mop_model op M) out
  | KPoint op M out => option_eqb qpt_eqb (pop_model op M) out
  | KExtent M out => qext_eqb (mask_extent M) out
  | KPixelCoords M pts out => list_eqb zz_eqb (map (pixel_coordinates (rows (mk M)) (cols (mk M)) (mps M) (morg M)) pts) out
  | KPixelCentres M pts out => list_eqb zz_eqb (map (grid_pixel_centres (rows (mk M)) (cols (mk M)) (mps M) (morg M)) pts) out
  | KPixelIndexes M pts out => list_eqb Z.eqb (map (grid_pixel_indexes (rows (mk M)) (cols (mk M)) (mps M) (morg M)) pts) out
  | KPixelFloats M pts out => qg_eqb (map (grid_pixels (rows (mk M)) (cols (mk M)) (mps M) (morg M)) pts) out
  | KRect sy sx g b ops oorg omesh omap =>
      match @rect_overlay_grid QOps sy sx g b with
      | Some r => qpt_eqb (r_ps r) ops && qpt_eqb (r_org r) oorg && qg_eqb (rect_mesh_grid r) omesh
                  && list_eqb Z.eqb (rect_mappings r g) omap
      | None => false
      end
  | KDataset op d n a out => prod_eqb geom_eqb geom_eqb (dop_model op d n a) out
  | KReloc idx g mesh tol out =>
      list_eqb (qpt_close tol) (match mesh with None => @relocated_grid_from QOps idx g | Some mg => @relocated_mesh_grid_from QOps idx g mg end) out
  | KRadialA M c cssn ss rm tol out => list_eqb (qpt_close tol) (radial_projected_from_a cssn M c ss rm) out
  | K1D ax r ps o og oa oe pts opx pix osc =>
      ql_eqb (@grid_1d_via_mask QOps r ps o) og && ql_eqb (@grid_1d_all_false QOps r ps o) oa
      && (let e := @extent_1d QOps (len1 r) ps o in Qeq_bool (fst e) (fst oe) && Qeq_bool (snd e) (snd oe))
      && list_eqb Z.eqb (map (@pixel_coordinates_1d QOps (len1 r) ps o) pts) opx
      && ql_eqb (map (@scaled_coordinates_1d QOps (len1 r) ps o) pix) osc
  end.

(* the origin-free closed forms accept the implementation's output (single origin) *)
Definition rel_ok1 (k : obs) : bool :=
  match k with
  | KGrid op M out => res_eqb qg_eqb (gop_spec op M) out
  | KGeom op M out => option_eqb geom_eqb (mop_spec op M) out
  | KPoint op M out => option_eqb qpt_eqb (pop_spec op M) out
  | KExtent M out => qext_eqb (ext_shift (morg M) (rel_extent (rows (mk M)) (cols (mk M)) (mps M))) out
  | KPixelCoords M pts out | KPixelCentres M pts out =>
      list_eqb zz_eqb (map (fun p => rel_pixel (rows (mk M)) (cols (mk M)) (mps M) (psub p (morg M))) pts) out
  | KPixelIndexes M pts out =>
      list_eqb Z.eqb (map (fun p => let q := rel_pixel (rows (mk M)) (cols (mk M)) (mps M) (psub p (morg M)) in
                                    fst q * cols (mk M) + snd q) pts) out
  | KPixelFloats M pts out => qg_eqb (map (fun p => rel_pixel_float (rows (mk M)) (cols (mk M)) (mps M) (psub p (morg M))) pts) out
  | KRect sy sx g b ops oorg omesh omap =>
      option_eqb (list_eqb Z.eqb) (@rel_rect_mapper QOps sy sx g b) (Some omap)
      && qg_eqb (shift oorg (rel_grid (all_false sy sx) ops)) omesh
  | KDataset op d n a out => prod_eqb geom_eqb geom_eqb (dop_spec op d n a) out
  | KReloc idx g mesh tol out => true
  | KRadialA M c cssn ss rm tol out =>
      list_eqb (qpt_close tol) (shift (morg M) (rel_radial_a cssn (rows (mk M)) (cols (mk M)) (mps M) (psub c (morg M)) ss rm)) out
  | K1D ax r ps o og oa oe pts opx pix osc =>
      ql_eqb (@shift1 QOps o (@rel_grid_1d QOps r ps)) og && ql_eqb (@shift1 QOps o (@rel_grid_1d QOps (repeat false (length r)) ps)) oa
      && (let e := @rel_extent_1d QOps (len1 r) ps in Qeq_bool (fst e + o) (fst oe) && Qeq_bool (snd e + o) (snd oe))
      && list_eqb Z.eqb (map (fun x => @rel_pixel_1d QOps (len1 r) ps (x - o)%Q) pts) opx
      && ql_eqb (@shift1 QOps o (map (@rel_scaled_1d QOps (len1 r) ps) pix)) osc
  end.


(* A correspondence case = the same entry point observed at origin o and at origin o + d (every coordinate-valued
   argument translated by d as well). *)
Inductive case := KPair (d : qpt) (a b : obs).

Definition gshift_res (d : qpt) (x : res (list qpt)) : res (list qpt) := @rshift QOps d x.
Definition geom_shift (d : qpt) (g : geom) : geom := let '(h, w, p, o) := g in (h, w, p, @padd QOps o d).
Definition M_translated (d : qpt) (A B : QM) : bool :=
  list_eqb (list_eqb Bool.eqb) (mk A) (mk B) && qpt_eqb (mps A) (mps B) && qpt_eqb (@padd QOps (morg A) d) (morg B).
Definition pts_translated (d : qpt) (p q : list qpt) : bool := qg_eqb (@shift QOps d p) q.
Definition gop_translated (d : qpt) (a b : gop) : bool :=
  match a, b with
  | GRadial c ss rm, GRadial c' ss' rm' => qpt_eqb (@padd QOps c d) c' && (ss =? ss')%Z && Bool.eqb rm rm'
  | GSel i, GSel i' => list_eqb Nat.eqb i i'
  | GDerived m, GDerived m' => list_eqb (list_eqb Bool.eqb) m m'
  | GOver s, GOver s' => list_eqb Z.eqb s s'
  | GOverSel s i, GOverSel s' i' => list_eqb Z.eqb s s' && list_eqb Nat.eqb i i'
  | GPadded a1 a2, GPadded b1 b2 | GOverlay a1 a2, GOverlay b1 b2 => (a1 =? b1)%Z && (a2 =? b2)%Z
  | GHilbertImage n, GHilbertImage n' => (n =? n')%Z
  | GHilbertCurve c r, GHilbertCurve c' r' => qg_eqb c c' && Qeq_bool r r'
  | GScaledOfPixels p, GScaledOfPixels p' | GScaledOfPixelCentres p, GScaledOfPixelCentres p' => qg_eqb p p'
  | GSubtracted f, GSubtracted f' => qpt_eqb f f'
  | GFromMask, GFromMask | GAllFalse, GAllFalse | GEdge, GEdge | GBorder, GBorder => true
  | _, _ => false
  end.
Definition mop_same (a b : mop) : bool :=
  match a, b with
  | MZoomUnmasked, MZoomUnmasked => true
  | MZoomedAround x, MZoomedAround y => (x =? y)%Z
  | MPadded a1 a2, MPadded b1 b2 | MTrimmedArray a1 a2, MTrimmedArray b1 b2 => (a1 =? b1)%Z && (a2 =? b2)%Z
  | MSubtracted f, MSubtracted f' => qpt_eqb f f'
  | _, _ => false
  end.

(* THE PROPERTY, on two runs of the implementation: coordinate-valued results differ by exactly d, index-valued results are
   identical (and the second run really was given the translated inputs).  Does not call the model. *)
Definition spec_ok (k : case) : bool :=
  let '(KPair d a b) := k in
  match a, b with
  | KGrid op M out, KGrid op' M' out' => M_translated d M M' && gop_translated d op op' && res_eqb qg_eqb (gshift_res d out) out'
  | KGeom op M out, KGeom op' M' out' =>
      M_translated d M M' && mop_same op op' && option_eqb geom_eqb (option_map (geom_shift d) out) out'
  | KPoint op M out, KPoint op' M' out' =>
      M_translated d M M' &&
      match op, op' with
      | PMaskCentre, PMaskCentre => option_eqb qpt_eqb (@oshift QOps d out) out'
      | PZoomOffsetScaled, PZoomOffsetScaled | PZoomCentre, PZoomCentre | PZoomOffsetPixels, PZoomOffsetPixels =>
          option_eqb qpt_eqb out out'
      | _, _ => false
      end
  | KExtent M out, KExtent M' out' => M_translated d M M' && qext_eqb (@ext_shift QOps d out) out'
  | KPixelCoords M p out, KPixelCoords M' p' out' | KPixelCentres M p out, KPixelCentres M' p' out' =>
      M_translated d M M' && pts_translated d p p' && list_eqb zz_eqb out out'
  | KPixelIndexes M p out, KPixelIndexes M' p' out' => M_translated d M M' && pts_translated d p p' && list_eqb Z.eqb out out'
  | KPixelFloats M p out, KPixelFloats M' p' out' => M_translated d M M' && pts_translated d p p' && qg_eqb out out'
  | KRect sy sx g b ops oorg omesh omap, KRect sy' sx' g' b' ops' oorg' omesh' omap' =>
      (sy =? sy')%Z && (sx =? sx')%Z && pts_translated d g g' && Qeq_bool b b' && qpt_eqb ops ops'
      && qpt_eqb (@padd QOps oorg d) oorg' && pts_translated d omesh omesh' && list_eqb Z.eqb omap omap'
  | KDataset op da na aa out, KDataset op' da' na' aa' out' =>
      M_translated d da da' && M_translated d na na' && M_translated d aa aa'
      && prod_eqb geom_eqb geom_eqb (geom_shift d (fst out), geom_shift d (snd out)) out'
  | KReloc idx g mesh tol out, KReloc idx' g' mesh' tol' out' =>
      list_eqb Nat.eqb idx idx' && pts_translated d g g' && qpt_eqb tol tol'
      && match mesh, mesh' with None, None => true | Some a, Some b => pts_translated d a b | _, _ => false end
      && list_eqb (qpt_close (tol2 tol)) (@shift QOps d out) out'
  | KRadialA M c cssn ss rm tol out, KRadialA M' c' cssn' ss' rm' tol' out' =>
      M_translated d M M' && qpt_eqb (@padd QOps c d) c' && qpt_eqb cssn cssn' && (ss =? ss')%Z && Bool.eqb rm rm' && qpt_eqb tol tol'
      && list_eqb (qpt_close (tol2 tol)) (@shift QOps d out) out'
  | K1D ax r ps o og oa oe pts opx pix osc, K1D ax' r' ps' o' og' oa' oe' pts' opx' pix' osc' =>
      let d1 := if ax then snd d else fst d in
      Bool.eqb ax ax' && list_eqb Bool.eqb r r' && Qeq_bool ps ps' && Qeq_bool (o + d1) o'
      && ql_eqb (@shift1 QOps d1 og) og' && ql_eqb (@shift1 QOps d1 oa) oa'
      && Qeq_bool (fst oe + d1) (fst oe') && Qeq_bool (snd oe + d1) (snd oe')
      && ql_eqb (@shift1 QOps d1 pts) pts' && list_eqb Z.eqb opx opx' && ql_eqb pix pix' && ql_eqb (@shift1 QOps d1 osc) osc'
  | _, _ => false
  end.

(* model = implementation at both origins, and the origin-free closed forms accept both outputs *)
Definition agree (k : case) : bool :=
  let '(KPair d a b) := k in agree1 a && agree1 b && rel_ok1 a && rel_ok1 b.

Definition check (k : case) : nat := verdict (agree k) (spec_ok k).
