(* C18 -- proofs about the index part of the model (mask_2d_util border pixels, sub-pixel blocks).
   Everything here is about nat / bool / lists and is closed under the global context. *)
From Coq Require Import ZArith Lia List Bool Arith.
From PAV Require Import Base.NumOps Base.Res Base.Check Model.C18.
Import ListNotations.

(* ------------------------------------------------------------------ generic list facts *)
Lemma nth_map_lt' {B C} (f : B -> C) l k d d' : k < length l -> nth k (map f l) d' = f (nth k l d).
Proof. revert k. induction l as [|a l IH]; intros [|k] Hk; cbn in *; try lia; auto. apply IH. lia. Qed.

Lemma filter_ext_in' {B} (f g : B -> bool) l : (forall x, In x l -> f x = g x) -> filter f l = filter g l.
Proof. induction l as [|a l IH]; cbn; intros H; auto. rewrite (H a), IH; auto. Qed.
Lemma filter_none {B} (f : B -> bool) l : (forall x, In x l -> f x = false) -> filter f l = [].
Proof. induction l as [|a l IH]; cbn; intros H; auto. rewrite (H a), IH; auto. Qed.
Lemma filter_filter {B} (f g : B -> bool) l : filter f (filter g l) = filter (fun x => g x && f x) l.
Proof. induction l as [|a l IH]; cbn; auto. destruct (g a); cbn; [destruct (f a)|]; rewrite IH; reflexivity. Qed.
Lemma filter_map_fst {B C} (f : B -> bool) (l : list (B * C)) :
  filter f (map fst l) = map fst (filter (fun z => f (fst z)) l).
Proof. induction l as [|a l IH]; cbn; auto. destruct (f (fst a)); cbn; rewrite IH; reflexivity. Qed.

Lemma combine_seq_app {B} (l1 l2 : list B) : forall s,
  combine (seq s (length (l1 ++ l2))) (l1 ++ l2) =
  combine (seq s (length l1)) l1 ++ combine (seq (s + length l1) (length l2)) l2.
Proof.
  induction l1 as [|a l1 IH]; intros s; cbn [app length seq combine].
  - rewrite Nat.add_0_r. reflexivity.
  - rewrite IH. replace (s + S (length l1)) with (S s + length l1) by lia. reflexivity.
Qed.
Lemma in_combine_seq {B} (l : list B) d : forall s i a,
  In (i, a) (combine (seq s (length l)) l) -> s <= i /\ i - s < length l /\ nth (i - s) l d = a.
Proof.
  induction l as [|b l IH]; intros s i a H; cbn in H; [destruct H|].
  destruct H as [H|H].
  - injection H as <- <-. rewrite Nat.sub_diag. cbn. repeat split; lia.
  - destruct (IH _ _ _ H) as (H1 & H2 & H3). replace (i - s) with (S (i - S s)) by lia. cbn. repeat split; try lia. exact H3.
Qed.
Lemma in_combine_seq_inv {B} (l : list B) d : forall s k,
  k < length l -> In (s + k, nth k l d) (combine (seq s (length l)) l).
Proof.
  induction l as [|b l IH]; intros s k Hk; cbn in Hk; [lia|]. cbn [length seq combine].
  destruct k as [|k].
  - left. rewrite Nat.add_0_r. reflexivity.
  - right. replace (s + S k) with (S s + k) by lia. apply IH. lia.
Qed.

(* ------------------------------------------------------------------ coordinates of the double loop *)
Lemma in_coords H W y x : In (y, x) (coords H W) <-> y < H /\ x < W.
Proof.
  unfold coords. rewrite in_flat_map. split.
  - intros (y' & Hy & Hin). apply in_map_iff in Hin. destruct Hin as (x' & E & Hx). injection E as <- <-.
    apply in_seq in Hy, Hx. lia.
  - intros [Hy Hx]. exists y. split; [apply in_seq; lia|]. apply in_map_iff. exists x. split; [reflexivity|apply in_seq; lia].
Qed.
Lemma in_native m y x : In (y, x) (native_index_for_slim_index_2d_from m) <-> y < nrows m /\ x < ncols m /\ mget m y x = false.
Proof.
  unfold native_index_for_slim_index_2d_from. rewrite filter_In, in_coords. cbn [fst snd].
  rewrite negb_true_iff. tauto.
Qed.

(* ------------------------------------------------------------------ edge_1d_indexes_from as a filter *)
Definition unmasked (m : mask) (yx : nat * nat) : bool := negb (mget m (fst yx) (snd yx)).
Definition edge_step (m : mask) (st : nat * list nat) (yx : nat * nat) : nat * list nat :=
  let '(ri, acc) := st in let '(y, x) := yx in
  if mget m y x then st else (S ri, if check_if_edge_pixel m y x then acc ++ [ri] else acc).
Lemma edge_fold m : forall l ri acc,
  fold_left (edge_step m) l (ri, acc) =
  (ri + length (filter (unmasked m) l),
   acc ++ map fst (filter (fun iyx => check_if_edge_pixel m (fst (snd iyx)) (snd (snd iyx)))
                          (combine (seq ri (length (filter (unmasked m) l))) (filter (unmasked m) l)))).
Proof.
  induction l as [|[y x] l IH]; intros ri acc.
  - cbn. rewrite Nat.add_0_r, app_nil_r. reflexivity.
  - cbn [fold_left edge_step filter]. assert (Hu : unmasked m (y, x) = negb (mget m y x)) by reflexivity.
    rewrite !Hu. destruct (mget m y x) eqn:E; cbn [negb].
    + apply IH.
    + rewrite IH. cbn [length seq combine filter fst snd].
      destruct (check_if_edge_pixel m y x); cbn [map fst]; [rewrite <- app_assoc; cbn [app]|]; f_equal; lia.
Qed.
Lemma edge_is_filter m :
  edge_1d_indexes_from m =
  map fst (filter (fun iyx => check_if_edge_pixel m (fst (snd iyx)) (snd (snd iyx)))
                  (combine (seq 0 (total_pixels_2d_from m)) (native_index_for_slim_index_2d_from m))).
Proof.
  unfold edge_1d_indexes_from. change (fun (st : nat * list nat) (yx : nat * nat) => _) with (edge_step m).
  rewrite edge_fold. cbn [snd app]. reflexivity.
Qed.

(* ------------------------------------------------------------------ edge pixel = has a masked / outside neighbour *)
Lemma maskedZ_in m Y X : (0 <= Y < Z.of_nat (nrows m))%Z -> (0 <= X < Z.of_nat (ncols m))%Z ->
  maskedZ m Y X = mget m (Z.to_nat Y) (Z.to_nat X).
Proof.
  intros HY HX. unfold maskedZ.
  destruct (Y <? 0)%Z eqn:E1; [lia|]. destruct (X <? 0)%Z eqn:E2; [lia|].
  destruct (Y >=? Z.of_nat (nrows m))%Z eqn:E3; [lia|]. destruct (X >=? Z.of_nat (ncols m))%Z eqn:E4; [lia|].
  reflexivity.
Qed.
Lemma maskedZ_out m Y X : (Y < 0 \/ X < 0 \/ Z.of_nat (nrows m) <= Y \/ Z.of_nat (ncols m) <= X)%Z -> maskedZ m Y X = true.
Proof.
  intros H. unfold maskedZ.
  destruct (Y <? 0)%Z eqn:E1; [reflexivity|]. destruct (X <? 0)%Z eqn:E2; [reflexivity|].
  destruct (Y >=? Z.of_nat (nrows m))%Z eqn:E3; [reflexivity|]. destruct (X >=? Z.of_nat (ncols m))%Z eqn:E4; [reflexivity|].
  lia.
Qed.

Lemma edge_is_spec m y x : y < nrows m -> x < ncols m -> check_if_edge_pixel m y x = is_edge_spec m y x.
Proof.
  intros Hy Hx. unfold check_if_edge_pixel, is_edge_spec. cbn [existsb fst snd].
  destruct ((y =? 0) || (x =? 0) || (y =? nrows m - 1) || (x =? ncols m - 1)) eqn:E.
  - symmetry. rewrite !orb_true_iff in E. rewrite !Nat.eqb_eq in E.
    destruct E as [[[E|E]|E]|E].
    + rewrite (maskedZ_out m (Z.of_nat y + -1) (Z.of_nat x + 0)) by lia. rewrite !orb_true_r. reflexivity.
    + rewrite (maskedZ_out m (Z.of_nat y + 0) (Z.of_nat x + -1)) by lia. rewrite !orb_true_r. reflexivity.
    + rewrite (maskedZ_out m (Z.of_nat y + 1) (Z.of_nat x + 0)) by lia. rewrite !orb_true_r. reflexivity.
    + rewrite (maskedZ_out m (Z.of_nat y + 0) (Z.of_nat x + 1)) by lia. rewrite !orb_true_r. reflexivity.
  - rewrite !orb_false_iff in E. rewrite !Nat.eqb_neq in E. destruct E as [[[E1 E2] E3] E4].
    rewrite !maskedZ_in by lia.
    replace (Z.to_nat (Z.of_nat y + -1)) with (y - 1) by lia.
    replace (Z.to_nat (Z.of_nat y + 1)) with (y + 1) by lia.
    replace (Z.to_nat (Z.of_nat y + 0)) with y by lia.
    replace (Z.to_nat (Z.of_nat x + -1)) with (x - 1) by lia.
    replace (Z.to_nat (Z.of_nat x + 1)) with (x + 1) by lia.
    replace (Z.to_nat (Z.of_nat x + 0)) with x by lia.
    destruct (mget m (y + 1) x), (mget m (y - 1) x), (mget m y (x + 1)), (mget m y (x - 1)),
             (mget m (y + 1) (x + 1)), (mget m (y + 1) (x - 1)), (mget m (y - 1) (x + 1)), (mget m (y - 1) (x - 1));
      reflexivity.
Qed.

(* ------------------------------------------------------------------ the four np.sum tests *)
Lemma count_true_le l : count_true l <= length l.
Proof. unfold count_true. induction l as [|b l IH]; cbn; [lia|]. destruct b; cbn; lia. Qed.
Lemma count_true_all l : (count_true l =? length l) = forallb (fun b => b) l.
Proof.
  induction l as [|b l IH]; [reflexivity|]. destruct b; cbn [forallb andb].
  - unfold count_true in *. cbn [filter length]. exact IH.
  - unfold count_true. cbn [filter length]. apply Nat.eqb_neq. pose proof (count_true_le l). unfold count_true in *. lia.
Qed.
Lemma nth_skipn' {B} (l : list B) d : forall k i, nth i (skipn k l) d = nth (k + i) l d.
Proof.
  induction l as [|b l IH]; intros [|k] i; cbn [skipn plus]; try reflexivity.
  - destruct i; reflexivity.
  - cbn [nth]. apply IH.
Qed.
Lemma nth_firstn' {B} (l : list B) d : forall k i, i < k -> nth i (firstn k l) d = nth i l d.
Proof.
  induction l as [|b l IH]; intros [|k] i Hi; cbn [firstn]; try reflexivity; try lia.
  destruct i as [|i]; [reflexivity|]. cbn [nth]. apply IH. lia.
Qed.
Lemma forallb_firstn_nth (l : list bool) : forall k, k <= length l ->
  forallb (fun b => b) (firstn k l) = forallb (fun i => nth i l true) (seq 0 k).
Proof.
  intros k Hk. apply eq_iff_eq_true. rewrite !forallb_forall. split.
  - intros H i Hi. apply in_seq in Hi. rewrite <- (nth_firstn' l true k i) by lia.
    apply H. apply nth_In. rewrite firstn_length. lia.
  - intros H b Hb. destruct (In_nth _ _ true Hb) as (i & Hi & <-). rewrite firstn_length in Hi.
    rewrite nth_firstn' by lia. apply H. apply in_seq. lia.
Qed.
Lemma forallb_skipn_nth (l : list bool) : forall k,
  forallb (fun b => b) (skipn k l) = forallb (fun i => nth i l true) (seq k (length l - k)).
Proof.
  intros k. apply eq_iff_eq_true. rewrite !forallb_forall. split.
  - intros H i Hi. apply in_seq in Hi. replace i with (k + (i - k)) by lia. rewrite <- nth_skipn'.
    apply H. apply nth_In. rewrite skipn_length. lia.
  - intros H b Hb. destruct (In_nth _ _ true Hb) as (i & Hi & <-). rewrite skipn_length in Hi.
    rewrite nth_skipn'. apply H. apply in_seq. lia.
Qed.
(* np.sum(l[0:k]) == k *)
Lemma sum_before (l : list bool) k : k <= length l ->
  (count_true (firstn k l) =? k) = forallb (fun i => nth i l true) (seq 0 k).
Proof.
  intros Hk. rewrite <- forallb_firstn_nth by exact Hk. rewrite <- count_true_all.
  rewrite firstn_length, Nat.min_l by exact Hk. reflexivity.
Qed.
(* np.sum(l[k:]) == len(l) - k - 1, where l[k] is False *)
Lemma sum_from (l : list bool) k : k < length l -> nth k l true = false ->
  (count_true (skipn k l) =? length l - k - 1) = forallb (fun i => nth i l true) (seq (S k) (length l - S k)).
Proof.
  intros Hk Hf.
  assert (Hs : skipn k l = false :: skipn (S k) l).
  { rewrite <- Hf. clear Hf. revert k Hk. induction l as [|b l IH]; intros k Hk; cbn in Hk; [lia|].
    destruct k as [|k]; [reflexivity|]. cbn [skipn nth]. rewrite IH by lia. reflexivity. }
  rewrite Hs. unfold count_true. cbn [filter]. fold (count_true (skipn (S k) l)).
  rewrite <- forallb_skipn_nth, <- count_true_all, skipn_length. f_equal. lia.
Qed.

Lemma forallb_ext' {B} (f g : B -> bool) l : (forall a, f a = g a) -> forallb f l = forallb g l.
Proof. intros H. induction l as [|a l IH]; cbn; [reflexivity|]. rewrite H, IH. reflexivity. Qed.
Lemma nth_column m x y : nth y (column m x) true = mget m y x.
Proof.
  unfold column, mget. destruct (Nat.lt_ge_cases y (length m)) as [H|H].
  - rewrite (nth_map_lt' (fun row : list bool => nth x row true) m y [] true H). reflexivity.
  - rewrite nth_overflow by (rewrite map_length; exact H). rewrite (nth_overflow m) by exact H.
    destruct x; reflexivity.
Qed.
Lemma rect_row m y : rectb m = true -> y < nrows m -> length (nth y m []) = ncols m.
Proof.
  unfold rectb. rewrite forallb_forall. intros H Hy. apply Nat.eqb_eq. apply H. apply nth_In. exact Hy.
Qed.

Lemma border_test_is_spec m y x : rectb m = true -> y < nrows m -> x < ncols m -> mget m y x = false ->
  ((count_true (firstn y (column m x)) =? y)
   || (count_true (skipn x (nth y m [])) =? ncols m - x - 1)
   || (count_true (skipn y (column m x)) =? nrows m - y - 1)
   || (count_true (firstn x (nth y m [])) =? x)) =
  (forallb (fun y' => mget m y' x) (seq 0 y)
   || forallb (fun x' => mget m y x') (seq (S x) (ncols m - S x))
   || forallb (fun y' => mget m y' x) (seq (S y) (nrows m - S y))
   || forallb (fun x' => mget m y x') (seq 0 x)).
Proof.
  intros Hr Hy Hx Hm.
  assert (Hcl : length (column m x) = nrows m) by (unfold column; apply map_length).
  pose proof (rect_row m y Hr Hy) as Hrl.
  rewrite sum_before by lia.
  rewrite <- Hrl at 1. rewrite sum_from by (rewrite ?Hrl; auto).
  rewrite <- Hcl at 1. rewrite sum_from by (rewrite ?Hcl, ?nth_column; auto).
  rewrite sum_before by lia. rewrite Hrl, Hcl.
  repeat match goal with |- orb _ _ = orb _ _ => f_equal end; apply forallb_ext'; intros i; try apply nth_column; reflexivity.
Qed.

(* ------------------------------------------------------------------ border_slim_indexes_from = the set-theoretic border *)
Theorem border_slim_is_spec m : rectb m = true -> border_slim_indexes_from m = border_slim_spec m.
Proof.
  intros Hr. unfold border_slim_indexes_from, border_slim_spec. rewrite edge_is_filter.
  unfold total_pixels_2d_from. set (native := native_index_for_slim_index_2d_from m).
  rewrite filter_map_fst, filter_filter. f_equal. apply filter_ext_in'.
  intros [i [y x]] Hin. cbn [fst snd].
  destruct (in_combine_seq native (0, 0) _ _ _ Hin) as (_ & Hi & Hn). rewrite Nat.sub_0_r in Hi, Hn.
  assert (Hyx : In (y, x) native) by (rewrite <- Hn; apply nth_In; exact Hi).
  apply in_native in Hyx. destruct Hyx as (Hy & Hx & Hm).
  unfold check_if_border_pixel, is_border_spec. fold native. rewrite Hn, Hm. cbn [negb andb].
  rewrite edge_is_spec by assumption. destruct (is_edge_spec m y x); cbn [andb]; [|reflexivity].
  apply border_test_is_spec; assumption.
Qed.

Lemma in_border_slim_spec m i :
  In i (border_slim_spec m) <->
  i < total_pixels_2d_from m /\
  is_border_spec m (fst (nth i (native_index_for_slim_index_2d_from m) (0, 0)))
                   (snd (nth i (native_index_for_slim_index_2d_from m) (0, 0))) = true.
Proof.
  unfold border_slim_spec, total_pixels_2d_from. set (native := native_index_for_slim_index_2d_from m).
  rewrite in_map_iff. split.
  - intros ([i' yx] & E & Hin). cbn in E. subst i'. apply filter_In in Hin. destruct Hin as [Hin Hb].
    destruct (in_combine_seq native (0, 0) _ _ _ Hin) as (_ & Hi & Hn). rewrite Nat.sub_0_r in Hi, Hn.
    cbn [fst snd] in Hb. rewrite Hn. split; assumption.
  - intros [Hi Hb]. exists (i, nth i native (0, 0)). split; [reflexivity|]. apply filter_In. split; [|exact Hb].
    apply (in_combine_seq_inv native (0, 0) 0 i Hi).
Qed.
Lemma border_slim_lt m i : rectb m = true -> In i (border_slim_indexes_from m) -> i < total_pixels_2d_from m.
Proof. intros Hr Hi. rewrite (border_slim_is_spec m Hr) in Hi. apply in_border_slim_spec in Hi. tauto. Qed.

(* ------------------------------------------------------------------ the blocks of sub-pixel indexes *)
Definition sz (ss : list nat) (i : nat) : nat := nth i ss 0.
Definition sub_offset (ss : list nat) (i : nat) : nat :=
  length (flat_map (fun j => repeat j (sz ss j * sz ss j)) (seq 0 i)).

Lemma positions_repeat i : forall k s,
  map fst (filter (fun kv : nat * nat => snd kv =? i) (combine (seq s k) (repeat i k))) = seq s k.
Proof.
  induction k as [|k IH]; intros s; [reflexivity|]. cbn [repeat seq combine filter snd]. rewrite Nat.eqb_refl.
  cbn [map fst]. rewrite IH. reflexivity.
Qed.
Lemma positions_absent i (l : list nat) s : ~ In i l ->
  filter (fun kv : nat * nat => snd kv =? i) (combine (seq s (length l)) l) = [].
Proof.
  intros H. apply filter_none. intros [k v] Hin. cbn [snd]. apply Nat.eqb_neq. intros ->.
  apply H. eapply in_combine_r. exact Hin.
Qed.
Lemma in_flat_repeat (g : nat -> nat) l x : In x (flat_map (fun j => repeat j (g j)) l) -> In x l.
Proof.
  rewrite in_flat_map. intros (j & Hj & Hx). apply repeat_spec in Hx. subst. exact Hj.
Qed.

Theorem block_is_range m ss i : i < total_pixels_2d_from m ->
  nth i (sub_slim_indexes_for_slim_index m ss) [] = seq (sub_offset ss i) (sz ss i * sz ss i).
Proof.
  intros Hi. unfold sub_slim_indexes_for_slim_index, slim_index_for_sub_slim_index.
  set (n := total_pixels_2d_from m) in *. fold (sz ss).
  set (f := fun j => repeat j (sz ss j * sz ss j)).
  rewrite (nth_map_lt' _ _ _ 0) by (rewrite seq_length; exact Hi).
  rewrite seq_nth by exact Hi. cbn [plus].
  assert (Hsplit : seq 0 n = seq 0 i ++ i :: seq (S i) (n - S i)).
  { replace n with (i + S (n - S i)) at 1 by lia. rewrite seq_app. reflexivity. }
  rewrite Hsplit, flat_map_app. cbn [flat_map]. fold (f i).
  set (A := flat_map f (seq 0 i)). set (B := flat_map f (seq (S i) (n - S i))).
  rewrite combine_seq_app, filter_app, map_app.
  rewrite (positions_absent i A).
  2:{ intros H. apply in_flat_repeat in H. apply in_seq in H. lia. }
  rewrite combine_seq_app, filter_app, map_app.
  rewrite (positions_absent i B).
  2:{ intros H. apply in_flat_repeat in H. apply in_seq in H. lia. }
  cbn [map app]. rewrite app_nil_r. rewrite repeat_length, positions_repeat.
  reflexivity.
Qed.
