(* C12 -- All geometry is covariant under translation of the coordinate origin.  Statements only.
   Numbers are Coq's reals ([ROps]); [d] is an arbitrary real vector.  [padd p d] = p + d, [shift d g] adds d to every
   point of a grid, [oshift] / [rshift] / [option_map (translate d)] do the same under option / result / for the origin
   of a returned mask, [ext_shift d] moves an extent (x by snd d, y by fst d).  [translate d M] is the mask M (same
   boolean array, same pixel scales) with origin + d.  The definitions on the left are the executable model of the code
   (coq/Model/C12.v), call site by call site; the [rel_...] functions never mention an origin.
   Hypotheses: pixel scales non-zero (the code divides the origin by them); positive where a derived pixel scale must be
   non-zero (overlay).  Index-valued statements need no hypothesis at all. *)
From Coq Require Import ZArith QArith List Bool Reals Lra.
From PAV Require Import Base.Res Base.NumOps Model.C12 Proofs.C12 Proofs.C12Reloc.
Import ListNotations.
Local Open Scope R_scope.

(* util layer: pixel coordinates / indices of correspondingly translated points do not move (no hypothesis) *)
Theorem C12_pixel_indices_invariant :
  (forall H W (ps o d p : @pt ROps),
  pixel_coordinates H W ps (padd o d) (padd p d) = pixel_coordinates H W ps o p) /\
  (forall H W (ps o d p : @pt ROps),
  grid_pixels H W ps (padd o d) (padd p d) = grid_pixels H W ps o p) /\
  (forall H W (ps o d p : @pt ROps),
  grid_pixel_centres H W ps (padd o d) (padd p d) = grid_pixel_centres H W ps o p) /\
  (forall H W (ps o d p : @pt ROps),
  grid_pixel_indexes H W ps (padd o d) (padd p d) = grid_pixel_indexes H W ps o p).
Proof. exact (conj pixel_coordinates_invariant (conj grid_pixels_invariant (conj grid_pixel_centres_invariant grid_pixel_indexes_invariant))). Qed.

(* ... and depend only on the position relative to the origin *)
Theorem C12_pixel_indices_relative :
  (forall H W (ps o p : @pt ROps),
  pixel_coordinates H W ps o p = rel_pixel H W ps (psub p o)) /\
  (forall H W (ps o p : @pt ROps),
  grid_pixel_centres H W ps o p = rel_pixel H W ps (psub p o)) /\
  (forall H W (ps o p : @pt ROps),
  grid_pixels H W ps o p = rel_pixel_float H W ps (psub p o)).
Proof. exact (conj pixel_coordinates_spec (conj grid_pixel_centres_spec grid_pixels_spec)). Qed.

(* util layer: pixel -> scaled conversions move by exactly d *)
Theorem C12_coordinate_conversions_translate :
  (forall (ps : @pt ROps), fst ps <> 0 -> snd ps <> 0 -> forall H W o d q,
  scaled_coordinates H W ps (padd o d) q = padd (scaled_coordinates H W ps o q) d) /\
  (forall (ps : @pt ROps), fst ps <> 0 -> snd ps <> 0 -> forall H W o d q,
  grid_scaled_of_pixels H W ps (padd o d) q = padd (grid_scaled_of_pixels H W ps o q) d).
Proof. exact (conj x_scaled_coordinates_translates x_grid_scaled_of_pixels_translates). Qed.

(* util layer: pixel-centre and over-sampled grids move by exactly d *)
Theorem C12_pixel_centre_grids_translate :
  (forall (ps : @pt ROps), fst ps <> 0 -> snd ps <> 0 -> forall m o d,
  grid_via_mask m ps (padd o d) = shift d (grid_via_mask m ps o)) /\
  (forall (ps : @pt ROps), fst ps <> 0 -> snd ps <> 0 -> forall H W o d,
  grid_via_shape H W ps (padd o d) = shift d (grid_via_shape H W ps o)) /\
  (forall (ps : @pt ROps), fst ps <> 0 -> snd ps <> 0 -> forall m o d subs,
  over_sampled m ps (padd o d) subs = shift d (over_sampled m ps o subs)).
Proof. exact (conj x_grid_via_mask_translates (conj x_grid_via_shape_translates x_over_sampled_translates)). Qed.

Theorem C12_extent_translates : forall H W (ps o d : @pt ROps),
  extent H W ps (padd o d) = ext_shift d (extent H W ps o).
Proof. exact extent_translates. Qed.

(* centre of a grid ((max+min)/2) moves by d, its interior size does not change *)
Theorem C12_grid_centre_and_interior :
  (forall (d : @pt ROps) g, grid_centre (shift d g) = oshift d (grid_centre g)) /\
  (forall (d : @pt ROps) g, interior (shift d g) = interior g).
Proof. exact (conj grid_centre_shift interior_shift). Qed.

(* "only positions relative to the origin": model = origin-free closed formula + origin *)
Theorem C12_relative_forms :
  (forall (ps : @pt ROps), fst ps <> 0 -> snd ps <> 0 -> forall m o,
  grid_via_mask m ps o = shift o (rel_grid m ps)) /\
  (forall (ps : @pt ROps), fst ps <> 0 -> snd ps <> 0 -> forall m o subs,
  over_sampled m ps o subs = shift o (rel_over m ps subs)) /\
  (forall H W (ps o : @pt ROps), extent H W ps o = ext_shift o (rel_extent H W ps)) /\
  (forall (ps : @pt ROps), fst ps <> 0 -> snd ps <> 0 -> forall H W o q,
  scaled_coordinates H W ps o q = padd (rel_of_pixel_centre H W ps q) o) /\
  (forall (ps : @pt ROps), fst ps <> 0 -> snd ps <> 0 -> forall H W o q,
  grid_scaled_of_pixels H W ps o q = padd (rel_of_pixel H W ps q) o) /\
  (forall (M : @mask2d ROps), fst (mps M) <> 0 -> snd (mps M) <> 0 ->
  from_mask M = shift (morg M) (rel_grid (mk M) (mps M))).
Proof. exact (conj x_grid_via_mask_spec (conj x_over_sampled_spec (conj extent_spec (conj x_scaled_coordinates_spec (conj x_grid_scaled_of_pixels_spec x_from_mask_spec))))). Qed.

(* derive_mask.{all_false, edge, border, blurring_from, edge_buffed}, Mask2D.resized_from / rescaled_from: any function [f] of
   the boolean array; the derived mask carries the parent's pixel scales and origin *)
Theorem C12_derived_masks_keep_the_frame :
  (forall (f : mask -> mask) (d : @pt ROps) (M : @mask2d ROps), derive_mask f (translate d M) = translate d (derive_mask f M)) /\
  (forall (d : @pt ROps) (M : @mask2d ROps) kh kw, padded_mask (translate d M) kh kw = translate d (padded_mask M kh kw)) /\
  (forall (d : @pt ROps) (M : @mask2d ROps) ih iw, trimmed_array_mask (translate d M) ih iw = translate d (trimmed_array_mask M ih iw)).
Proof. exact (conj derive_mask_commutes (conj padded_mask_translates trimmed_array_mask_translates)). Qed.

(* call sites: Grid2D.from_mask, derive_grid.all_false, derive_grid.edge/border ([sel] = any index list computed from the boolean
   array), blurring_grid_from ([bl] = any function of the boolean array), padded_grid_from, over_sampled_grid / sub_grid *)
Theorem C12_mask_grids_translate :
  (forall (M : @mask2d ROps), fst (mps M) <> 0 -> snd (mps M) <> 0 -> forall d,
  from_mask (translate d M) = shift d (from_mask M)) /\
  (forall (M : @mask2d ROps), fst (mps M) <> 0 -> snd (mps M) <> 0 -> forall d,
  derive_grid_all_false (translate d M) = shift d (derive_grid_all_false M)) /\
  (forall (M : @mask2d ROps), fst (mps M) <> 0 -> snd (mps M) <> 0 ->
  forall (sel : mask -> list nat) d, Forall (fun i => (i < length (from_mask M))%nat) (sel (mk M)) ->
  derive_grid_sel sel (translate d M) = shift d (derive_grid_sel sel M)) /\
  (forall (M : @mask2d ROps), fst (mps M) <> 0 -> snd (mps M) <> 0 ->
  forall (bl : mask -> mask) d, blurring_grid_from bl (translate d M) = shift d (blurring_grid_from bl M)) /\
  (forall (M : @mask2d ROps), fst (mps M) <> 0 -> snd (mps M) <> 0 -> forall d kh kw,
  padded_grid_from (translate d M) kh kw = shift d (padded_grid_from M kh kw)) /\
  (forall (M : @mask2d ROps), fst (mps M) <> 0 -> snd (mps M) <> 0 -> forall d subs,
  over_sampled_grid (translate d M) subs = shift d (over_sampled_grid M subs)).
Proof. exact (conj x_from_mask_translates (conj x_derive_grid_all_false_translates (conj x_derive_grid_sel_translates (conj x_blurring_grid_from_translates (conj x_padded_grid_from_translates x_over_sampled_grid_translates))))). Qed.

(* Grid2D.subtracted_from(offset): the re-based grid and its mask (origin - offset) *)
Theorem C12_subtracted_from_translates : forall (M : @mask2d ROps), fst (mps M) <> 0 -> snd (mps M) <> 0 -> forall d off,
  subtracted_mask (translate d M) off = translate d (subtracted_mask M off) /\
  subtracted_grid (translate d M) off = shift d (subtracted_grid M off).
Proof. exact x_subtracted_from_translates. Qed.

Theorem C12_mask_centre_and_extent_translate :
  (forall (M : @mask2d ROps), fst (mps M) <> 0 -> snd (mps M) <> 0 -> forall d,
  mask_centre (translate d M) = oshift d (mask_centre M)) /\
  (forall (d : @pt ROps) (M : @mask2d ROps),
  mask_extent (translate d M) = ext_shift d (mask_extent M)).
Proof. exact (conj x_mask_centre_translates mask_extent_translates). Qed.

(* zoom: pixel-valued quantities do not move, the zoomed masks' origins move by d *)
Theorem C12_zoom :
  (forall (M : @mask2d ROps), fst (mps M) <> 0 -> snd (mps M) <> 0 -> forall d,
  zoom_centre (translate d M) = zoom_centre M) /\
  (forall (M : @mask2d ROps), fst (mps M) <> 0 -> snd (mps M) <> 0 -> forall d,
  zoom_offset_pixels (translate d M) = zoom_offset_pixels M) /\
  (forall (M : @mask2d ROps), fst (mps M) <> 0 -> snd (mps M) <> 0 -> forall d,
  zoom_offset_scaled (translate d M) = zoom_offset_scaled M) /\
  (forall (M : @mask2d ROps), fst (mps M) <> 0 -> snd (mps M) <> 0 -> forall d,
  zoom_mask_unmasked (translate d M) = option_map (translate d) (zoom_mask_unmasked M)) /\
  (forall (M : @mask2d ROps), fst (mps M) <> 0 -> snd (mps M) <> 0 -> forall d b,
  zoomed_around_mask (translate d M) b = option_map (translate d) (zoomed_around_mask M b)).
Proof. exact (conj x_zoom_centre_invariant (conj x_zoom_offset_pixels_invariant (conj x_zoom_offset_scaled_invariant (conj x_zoom_mask_unmasked_translates x_zoomed_around_mask_translates)))). Qed.

(* radial projection (centre translated too; angle 0): points move by d, their number does not change *)
Theorem C12_radial_projection :
  (forall (d : @pt ROps) (M : @mask2d ROps) (c : @pt ROps) shape_slim remove_centre,
  radial_projected_from (translate d M) (padd c d) shape_slim remove_centre
  = shift d (radial_projected_from M c shape_slim remove_centre)) /\
  (forall (d : @pt ROps) (M : @mask2d ROps) (c : @pt ROps) shape_slim,
  radial_shape (mask_extent (translate d M)) (padd c d) (mps M) shape_slim = radial_shape (mask_extent M) c (mps M) shape_slim).
Proof. exact (conj radial_projected_from_translates radial_shape_from_invariant). Qed.

(* image meshes *)
Theorem C12_overlay_mesh_translates : forall (M : @mask2d ROps) (d : @pt ROps) sy sx,
  0 < fst (mps M) -> 0 < snd (mps M) -> (0 < sy)%Z -> (0 < sx)%Z ->
  overlay (translate d M) sy sx = rshift d (overlay M sy sx).
Proof. exact x_overlay_translates. Qed.

Theorem C12_hilbert_geometry_translates :
  (forall (M : @mask2d ROps), fst (mps M) <> 0 -> snd (mps M) <> 0 -> forall d n,
  hilbert_image_grid (translate d M) n = shift d (hilbert_image_grid M n)) /\
  (forall (d : @pt ROps) (M : @mask2d ROps) curve radius,
  hilbert_curve_grid (translate d M) curve radius = shift d (hilbert_curve_grid M curve radius)).
Proof. exact (conj x_hilbert_image_grid_translates hilbert_curve_grid_translates). Qed.

(* rectangular mesh overlaid on a translated grid: same pixel scales, origin + d, mesh grid + d, identical index table *)
Theorem C12_rect_mesh_and_mapper :
  (forall sy sx (g : list (@pt ROps)) (b : R) (d : @pt ROps),
  rect_overlay_grid sy sx (shift d g) b =
  option_map (fun r => {| r_shape := r_shape r; r_ps := r_ps r; r_org := padd (r_org r) d |}) (rect_overlay_grid sy sx g b)) /\
  (forall (r : @rmesh ROps) (d : @pt ROps), fst (r_ps r) <> 0 -> snd (r_ps r) <> 0 ->
  rect_mesh_grid {| r_shape := r_shape r; r_ps := r_ps r; r_org := padd (r_org r) d |} = shift d (rect_mesh_grid r)) /\
  (forall sy sx (g : list (@pt ROps)) (b : R) (d : @pt ROps),
  rect_mapper sy sx (shift d g) b = rect_mapper sy sx g b).
Proof. exact (conj rect_overlay_grid_translates (conj x_rect_mesh_grid_translates rect_mapper_invariant)). Qed.

(* datasets: the returned data / noise map keep the frame ([timaging d] translates both masks of a dataset) *)
Theorem C12_datasets_keep_the_frame :
  (forall pad (d : @pt ROps) ds ds' (M : @mask2d ROps),
  apply_mask pad ds' (translate d M) = timaging d (apply_mask pad ds M)) /\
  (forall (d : @pt ROps) ds,
  apply_noise_scaling (timaging d ds) = timaging d (apply_noise_scaling ds)) /\
  (forall rz (d : @pt ROps) ds, trimmed rz (timaging d ds) = timaging d (trimmed rz ds)) /\
  (forall (d : @pt ROps) (image : @mask2d ROps) p,
  simulate (translate d image) p = timaging d (simulate image p)) /\
  (forall (d : @pt ROps) (data : @mask2d ROps),
  s2n_limited (translate d data) = translate d (s2n_limited data)) /\
  (forall (d : @pt ROps) (ds : @imaging ROps), fst (mps (i_data ds)) <> 0 -> snd (mps (i_data ds)) <> 0 ->
  from_mask (translate d (i_data ds)) = shift d (dataset_grid ds)).
Proof. exact (conj apply_mask_translates (conj apply_noise_scaling_translates (conj trimmed_translates (conj simulate_translates (conj s2n_limited_translates x_dataset_grid_translates))))). Qed.

(* border relocation (relocated_grid_via_jit_from; BorderRelocator.relocated_grid_from takes the border from the grid itself by
   index): relocating a translated grid against the translated border gives the translated result *)
Theorem C12_relocation_translates :
  (forall (d : @pt ROps) (g bg : list (@pt ROps)), relocate (shift d g) (shift d bg) = shift d (relocate g bg)) /\
  (forall (d : @pt ROps) (idx : list nat) (g : list (@pt ROps)), Forall (fun i => (i < length g)%nat) idx ->
     relocated_grid_from idx (shift d g) = shift d (relocated_grid_from idx g)).
Proof. exact (conj relocate_translates relocated_grid_from_translates). Qed.

(* the seven call sites as they were before the repairs (fixes/C12_*.diff, now committed in /repo): each violates the law
   with origin (0,0), d = (1,0) *)
Theorem C12_dropped_origin_call_sites_refuted :
  (exists (M : @mask2d QOps) (d : @pt QOps) kh kw,
  padded_grid_from_dropped (translate d M) kh kw <> shift d (padded_grid_from_dropped M kh kw)) /\
  (exists (M : @mask2d ROps) (d : @pt ROps) kh kw,
  padded_grid_from_dropped (translate d M) kh kw <> shift d (padded_grid_from_dropped M kh kw)) /\
  (exists (M : @mask2d QOps) (d : @pt QOps),
  zoom_mask_unmasked_dropped (translate d M) <> option_map (translate d) (zoom_mask_unmasked_dropped M)) /\
  (exists (M : @mask2d QOps) (d : @pt QOps) sy sx,
  overlay_dropped (translate d M) sy sx <> rshift d (overlay_dropped M sy sx)) /\
  (exists (M : @mask2d QOps) (d : @pt QOps) n,
  hilbert_image_grid_dropped (translate d M) n <> shift d (hilbert_image_grid_dropped M n)) /\
  (exists (M : @mask2d ROps) (d : @pt ROps) curve r,
  hilbert_curve_grid_dropped (translate d M) curve r <> shift d (hilbert_curve_grid_dropped M curve r)) /\
  (exists ds : @imaging QOps,
  apply_noise_scaling_dropped (tq ds) <> tq (apply_noise_scaling_dropped ds)) /\
  (exists (image : @mask2d QOps) p,
  simulate_dropped (translate dq image) p <> tq (simulate_dropped image p)) /\
  (exists (data : @mask2d ROps) (d : @pt ROps),
  s2n_limited_dropped (translate d data) <> translate d (s2n_limited_dropped data)).
Proof. exact (conj padded_grid_from_dropped_refuted (conj padded_grid_from_dropped_refuted_R (conj zoom_mask_unmasked_dropped_refuted (conj overlay_dropped_refuted (conj hilbert_image_grid_dropped_refuted (conj hilbert_curve_grid_dropped_refuted_R (conj apply_noise_scaling_dropped_refuted (conj simulate_dropped_refuted s2n_limited_dropped_refuted_R)))))))). Qed.

(* ---------------------------------------------------------------- non-vacuity *)
(* non-zero / positive pixel scales, a non-square mask with a hole and an outer-ring pixel, a non-zero origin and d:
   the executable model at exact rationals satisfies the translation law with non-trivial values *)
Example C12_hyps_satisfiable :
  let m := [[false; true; true; false]; [true; false; true; true]; [true; true; false; false]] in
  let M : @mask2d QOps := mkM m (1 # 2, 3 # 2)%Q (1 # 4, - 3 # 8)%Q in
  let d : @pt QOps := (5 # 8, - 9 # 8)%Q in
  from_mask (translate d M) = shift d (from_mask M) /\
  from_mask M = [(3 # 4, - 21 # 8); (3 # 4, 15 # 8); (1 # 4, - 9 # 8); (- 1 # 4, 3 # 8); (- 1 # 4, 15 # 8)]%Q /\
  mask_centre (translate d M) = oshift d (mask_centre M) /\ mask_centre M = Some (1 # 4, - 3 # 8)%Q /\
  option_map geom_of (zoom_mask_unmasked (translate d M)) = option_map geom_of (option_map (translate d) (zoom_mask_unmasked M)) /\
  option_map geom_of (zoom_mask_unmasked M) = Some (3%Z, 4%Z, ((1 # 2)%Q, (3 # 2)%Q), ((1 # 4)%Q, (- 3 # 8)%Q)) /\
  overlay M 3 2 = Ok [(3 # 4, 9 # 8); (1 # 4, - 15 # 8); (- 1 # 4, 9 # 8)]%Q /\
  overlay (translate d M) 3 2 = rshift d (overlay M 3 2) /\
  Forall (fun i => (i < length (from_mask M))%nat) [0; 1; 4]%nat.
Proof. vm_compute. repeat split; repeat constructor. Qed.
Example C12_real_hyps_satisfiable : exists M : @mask2d ROps, 0 < fst (mps M) /\ 0 < snd (mps M) /\ fst (mps M) <> 0 /\ snd (mps M) <> 0.
Proof. exists {| mk := [[false]]; mps := ((1, 2) : @pt ROps); morg := ((3, 4) : @pt ROps) |}. cbn. repeat split; lra. Qed.

Print Assumptions C12_pixel_indices_invariant.
Print Assumptions C12_pixel_indices_relative.
Print Assumptions C12_coordinate_conversions_translate.
Print Assumptions C12_pixel_centre_grids_translate.
Print Assumptions C12_extent_translates.
Print Assumptions C12_grid_centre_and_interior.
Print Assumptions C12_relative_forms.
Print Assumptions C12_derived_masks_keep_the_frame.
Print Assumptions C12_mask_grids_translate.
Print Assumptions C12_mask_centre_and_extent_translate.
Print Assumptions C12_zoom.
Print Assumptions C12_radial_projection.
Print Assumptions C12_overlay_mesh_translates.
Print Assumptions C12_hilbert_geometry_translates.
Print Assumptions C12_rect_mesh_and_mapper.
Print Assumptions C12_datasets_keep_the_frame.
Print Assumptions C12_subtracted_from_translates.
Print Assumptions C12_relocation_translates.
Print Assumptions C12_dropped_origin_call_sites_refuted.
