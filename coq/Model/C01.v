(* C01 -- slim / native conversions.  Executable model of
     array_2d_util.array_2d_slim_from / array_2d_native_from / array_2d_via_indexes_from / convert_array_2d,
     mask_2d_util.native_index_for_slim_index_2d_from / mask_slim_indexes_from,
     grid_2d_util.grid_2d_slim_from / grid_2d_native_from / convert_grid_2d,
     array_1d_util.* and mask_1d_util.native_index_for_slim_index_1d_from,
   polymorphic in the value type (no arithmetic on values is performed by the code except zeroing the
   masked entries of a native input: `array[mask] = 0` since /repo e8113b3 / 6af65c9, "replace by zero").  No proofs here. *)
From Coq Require Import List Arith Bool ZArith.
From PAV Require Import Base.Res Base.Check.
Import ListNotations.

Definition mask := list (list bool).   (* true = masked *)

Section Model.
  Context {A : Type} (zero : A).
  Definition grid := list (list A).

  (* ---------------- shapes ---------------- *)
  Definition rectb {B} (H W : nat) (g : list (list B)) : bool :=
    Nat.eqb (length g) H && forallb (fun r => Nat.eqb (length r) W) g.
  Definition width {B} (g : list (list B)) : nat := length (hd [] g).
  Definition get2 (g : grid) (p : nat * nat) : A := nth (snd p) (nth (fst p) g []) zero.
  Definition mget (m : mask) (p : nat * nat) : bool := nth (snd p) (nth (fst p) m []) true.

  (* ---------------- mask_2d_util.native_index_for_slim_index_2d_from ----------------
     double loop y, x; appends (y, x) for every unmasked pixel *)
  Fixpoint row_coords (y : nat) (r : list bool) (x : nat) : list (nat * nat) :=
    match r with
    | [] => []
    | b :: t => if b then row_coords y t (S x) else (y, x) :: row_coords y t (S x)
    end.
  Fixpoint coords_from (m : mask) (y : nat) : list (nat * nat) :=
    match m with
    | [] => []
    | r :: t => row_coords y r 0 ++ coords_from t (S y)
    end.
  Definition native_for_slim (m : mask) : list (nat * nat) := coords_from m 0.
  Definition count (m : mask) : nat := length (native_for_slim m).

  (* ---------------- array_2d_slim_from: double loop, running output index ---------------- *)
  Fixpoint slim_row (r : list bool) (v : list A) : list A :=
    match r, v with
    | b :: r', a :: v' => if b then slim_row r' v' else a :: slim_row r' v'
    | _, _ => []
    end.
  Fixpoint slim_from (m : mask) (n : grid) : list A :=
    match m, n with
    | r :: m', v :: n' => slim_row r v ++ slim_from m' n'
    | _, _ => []
    end.

  (* ---------------- array_2d_via_indexes_from: zeros(shape), then one write per slim index ---- *)
  Fixpoint upd {B} (l : list B) (i : nat) (v : B) : list B :=
    match l, i with
    | [], _ => []
    | _ :: t, O => v :: t
    | x :: t, S j => x :: upd t j v
    end.
  Definition upd2 (g : grid) (p : nat * nat) (v : A) : grid :=
    upd g (fst p) (upd (nth (fst p) g []) (snd p) v).
  Fixpoint scatter_set (g : grid) (idx : list (nat * nat)) (s : list A) : grid :=
    match idx, s with
    | p :: idx', v :: s' => scatter_set (upd2 g p v) idx' s'
    | _, _ => g
    end.
  Definition zeros2 (H W : nat) : grid := repeat (repeat zero W) H.
  Definition via_indexes (H W : nat) (idx : list (nat * nat)) (s : list A) : grid :=
    scatter_set (zeros2 H W) idx s.
  Definition native_from (m : mask) (s : list A) : grid :=
    via_indexes (length m) (width m) (native_for_slim m) s.

  (* `array[mask] = 0` (was `array *= invert(mask)` before /repo e8113b3 / 6af65c9) *)
  Definition zero_masked (m : mask) (n : grid) : grid :=
    map (fun rv => map (fun bv : bool * A => if fst bv then zero else snd bv) (combine (fst rv) (snd rv)))
        (combine m n).

  (* ---------------- convert_array_2d and the .slim / .native accessors ----------------
     input is either a native grid or a slim vector; the structure stores one of the two forms *)
  Inductive form := Slim (s : list A) | Native (n : grid).
  Definition convert (m : mask) (input : form) (store_native : bool) : form :=
    match input, store_native with
    | Native n, true => Native (zero_masked m n)
    | Native n, false => Slim (slim_from m (zero_masked m n))
    | Slim s, false => Slim s
    | Slim s, true => Native (native_from m s)
    end.
  Definition to_slim (m : mask) (f : form) : list A :=
    match f with Slim s => s | Native n => slim_from m n end.
  Definition to_native (m : mask) (f : form) : grid :=
    match f with Slim s => native_from m s | Native n => n end.

  (* ---------------- mask_slim_indexes_from: running flat counter ---------------- *)
  Fixpoint msi (l : list bool) (flag : bool) (i : nat) : list nat :=
    match l with
    | [] => []
    | b :: t => if Bool.eqb b flag then i :: msi t flag (S i) else msi t flag (S i)
    end.
  Definition mask_slim_indexes (m : mask) (flag : bool) : list nat := msi (concat m) flag 0.

  (* ---------------- 1-D: array_1d_util / mask_1d_util ---------------- *)
  Fixpoint native_for_slim_1d (r : list bool) (x : nat) : list nat :=
    match r with
    | [] => []
    | b :: t => if b then native_for_slim_1d t (S x) else x :: native_for_slim_1d t (S x)
    end.
  Fixpoint scatter_set_1d (g : list A) (idx : list nat) (s : list A) : list A :=
    match idx, s with
    | i :: idx', v :: s' => scatter_set_1d (upd g i v) idx' s'
    | _, _ => g
    end.
  Definition native_from_1d (r : list bool) (s : list A) : list A :=
    scatter_set_1d (repeat zero (length r)) (native_for_slim_1d r 0) s.
  Definition slim_from_1d (r : list bool) (v : list A) : list A := slim_row r v.
  Definition zero_masked_1d (r : list bool) (v : list A) : list A :=
    map (fun bv : bool * A => if fst bv then zero else snd bv) (combine r v).
  (* convert_array_1d / convert_grid_1d (after the fix: a native input kept native is multiplied by
     the inverted mask) and the .slim / .native accessors *)
  Inductive form1 := Slim1 (s : list A) | Native1 (n : list A).
  Definition convert_1d (r : list bool) (input : form1) (store_native : bool) : form1 :=
    match input, store_native with
    | Native1 n, true => Native1 (zero_masked_1d r n)
    | Native1 n, false => Slim1 (slim_from_1d r n)
    | Slim1 s, false => Slim1 s
    | Slim1 s, true => Native1 (native_from_1d r s)
    end.
  Definition to_slim_1d (r : list bool) (f : form1) : list A :=
    match f with Slim1 s => s | Native1 n => slim_from_1d r n end.
  Definition to_native_1d (r : list bool) (f : form1) : list A :=
    match f with Slim1 s => native_from_1d r s | Native1 n => n end.
  (* ---------------- objects with a history (phase 2) ----------------
     The `.native` / `.slim` accessors of Array2D / Grid2D / VectorYX2D do not look at how the object was built:
     they construct a new object from the object's CURRENT stored array through convert_array_2d /
     convert_grid_2d (`Array2D(values=self, mask=self.mask, store_native=True)`), so a natively stored array whose
     masked entries became non-zero (arithmetic `arr + c`, `c - arr`, `with_new_array`, `arr[y, x] = v`) is
     multiplied by the inverted mask again.  [obs_*] is what a reader of the object sees. *)
  Definition acc_native (m : mask) (f : form) : form := convert m f true.
  Definition acc_slim (m : mask) (f : form) : form := convert m f false.
  Definition obs_slim (m : mask) (f : form) : list A := to_slim m (acc_slim m f).
  Definition obs_native (m : mask) (f : form) : grid := to_native m (acc_native m f).

  (* shape predicate of a stored array: a slim one has one entry per unmasked pixel, a native one has the mask's shape *)
  Definition wfb (m : mask) (H W : nat) (f : form) : bool :=
    match f with Slim s => Nat.eqb (length s) (count m) | Native n => rectb H W n end.

  (* the operations that produce / change an object after construction:
       HMap g   : elementwise arithmetic on the stored array (to_new_array: `arr + c`, `c - arr`, `arr * c`, `-arr`)
       HNew f   : with_new_array(raw) -- the stored array is replaced by a raw array of either form
       HBuild f sn : a new object of the class on the SAME mask object, `Array2D(values=raw, mask=obj.mask, store_native=sn)`
       HSet k i j v : `obj[i, j] = v` on a natively stored object, `obj[k] = v` on a slim one (in place)
       HNative / HSlim : obj = obj.native / obj.slim *)
  Inductive hop := HMap (g : A -> A) | HNew (f : form) | HBuild (f : form) (store_native : bool)
               | HSet (k i j : nat) (v : A) | HNative | HSlim.
  Definition fmap (g : A -> A) (f : form) : form :=
    match f with Slim s => Slim (map g s) | Native n => Native (map (map g) n) end.
  Definition step (m : mask) (f : form) (o : hop) : form :=
    match o with
    | HMap g => fmap g f
    | HNew f' => f'
    | HBuild f' sn => convert m f' sn
    | HSet k i j v => match f with Slim s => Slim (upd s k v) | Native n => Native (upd2 n (i, j) v) end
    | HNative => acc_native m f
    | HSlim => acc_slim m f
    end.
  Definition hop_ok (m : mask) (H W : nat) (o : hop) : bool :=
    match o with HNew f' | HBuild f' _ => wfb m H W f' | _ => true end.
  (* what is read (slim, native) from the object after construction and after every operation *)
  (* apply_mask (phase 3): `Array2D(values=self.native, mask=m2)` / `VectorYX2D.from_mask(values=self.native, mask=m2)`:
     the native reading of the object under its own mask m is handed, as a native input, to a slim-storing
     constructor on the second mask m2 *)
  Definition apply_mask (m m2 : mask) (f : form) : form := convert m2 (Native (obs_native m f)) false.
  Fixpoint run_hist (m : mask) (f : form) (ops : list hop) : list (list A * grid) :=
    (obs_slim m f, obs_native m f) :: match ops with [] => [] | o :: t => run_hist m (step m f o) t end.

  (* 1-D objects: Array1D / Grid1D, same accessors through convert_array_1d / convert_grid_1d *)
  Definition obs_slim_1d (r : list bool) (f : form1) : list A := to_slim_1d r (convert_1d r f false).
  Definition obs_native_1d (r : list bool) (f : form1) : list A := to_native_1d r (convert_1d r f true).
  Inductive hop1 := HMap1 (g : A -> A) | HNew1 (f : form1) | HBuild1 (f : form1) (store_native : bool) | HSet1 (k j : nat) (v : A) | HNative1 | HSlim1.
  Definition step_1d (r : list bool) (f : form1) (o : hop1) : form1 :=
    match o with
    | HMap1 g => match f with Slim1 s => Slim1 (map g s) | Native1 n => Native1 (map g n) end
    | HNew1 f' => f'
    | HBuild1 f' sn => convert_1d r f' sn
    | HSet1 k j v => match f with Slim1 s => Slim1 (upd s k v) | Native1 n => Native1 (upd n j v) end
    | HNative1 => convert_1d r f true
    | HSlim1 => convert_1d r f false
    end.
  Fixpoint run_hist_1d (r : list bool) (f : form1) (ops : list hop1) : list (list A * list A) :=
    (obs_slim_1d r f, obs_native_1d r f) :: match ops with [] => [] | o :: t => run_hist_1d r (step_1d r f o) t end.
End Model.

(* ---------------- a Mask2D with a history (phase 2) ----------------
   `mask[y, x] = b` edits the mask's array in place; `mask.copy()`, `mask.with_new_array(raw)`, `mask.invert()`
   give a new Mask2D.  Mask2D.derive_indexes is a plain property that builds a fresh DeriveIndexes2D of the mask,
   and every index list is recomputed from the mask's current array on every read. *)
Inductive mop := MSet (y x : nat) (b : bool) | MNew (m' : mask) | MInvert | MCopy.
Definition mset (m : mask) (p : nat * nat) (b : bool) : mask :=
  upd m (fst p) (upd (nth (fst p) m []) (snd p) b).
Definition mop_ok (H W : nat) (o : mop) : bool := match o with MNew m' => rectb H W m' | _ => true end.
Definition mstep (m : mask) (o : mop) : mask :=
  match o with
  | MSet y x b => mset m (y, x) b
  | MNew m' => m'
  | MInvert => map (map negb) m
  | MCopy => m
  end.

(* ---------------- specification side (independent of the loops above) ---------------- *)
Definition all_coords (H W : nat) : list (nat * nat) :=
  flat_map (fun y => map (fun x => (y, x)) (seq 0 W)) (seq 0 H).
Definition unmasked_spec (m : mask) : list (nat * nat) :=
  filter (fun p => negb (mget m p)) (all_coords (length m) (width m)).

(* ---------------- correspondence cases (values are integers or exact rationals) ------------- *)
Definition zgrid := list (list Z).
Definition pair_eqb (a b : nat * nat) := Nat.eqb (fst a) (fst b) && Nat.eqb (snd a) (snd b).
Definition zg_eqb := list_eqb (list_eqb Z.eqb).

(* history steps with integer values: x -> a*x + b covers arr + c, c - arr, arr * c, -arr;
   ZSet carries the slim index k (used if the object is stored slim) and the native index (i, j) *)
Inductive zop := ZAff (a b : Z) | ZNew (native_input : bool) (n : zgrid) (s : list Z)
               | ZBuild (native_input : bool) (n : zgrid) (s : list Z) (store_native : bool)
               | ZSet (k i j : nat) (v : Z) | ZNative | ZSlim | ZAbs.

Inductive case :=
  (* util level *)
| KSlimFrom (m : mask) (n : zgrid) (out : list Z)
| KNativeFrom (m : mask) (s : list Z) (out : zgrid)
| KNativeForSlim (m : mask) (out : list (nat * nat))
| KMaskIdx (m : mask) (flag : bool) (out : list nat)
  (* class level: Array2D(values, mask, store_native).slim / .native, values given in either form *)
| KArray (m : mask) (native_input store_native : bool) (vals_native : zgrid) (vals_slim : list Z)
         (out_slim : list Z) (out_native : zgrid)
  (* Grid2D / VectorYX2D: the two planes, same convention *)
| KGrid (m : mask) (native_input store_native : bool) (ny nx : zgrid) (sy sx : list Z)
        (out_slim_y out_slim_x : list Z) (out_native_y out_native_x : zgrid)
  (* 1-D *)
| KArray1 (r : list bool) (native_input store_native : bool) (vals_native vals_slim : list Z)
          (out_slim out_native : list Z)
| KNativeForSlim1 (r : list bool) (out : list nat)
  (* phase 2: one object followed through a history; (slim, native) read after construction and after every step *)
| KHist (m : mask) (native_input store_native : bool) (vals_native : zgrid) (vals_slim : list Z)
        (ops : list zop) (outs : list (list Z * zgrid))
| KHist1 (r : list bool) (native_input store_native : bool) (vals_native vals_slim : list Z)
         (ops : list zop) (outs : list (list Z * list Z))
  (* phase 2: one Mask2D followed through in-place edits / copies; after construction and after every step:
     derive_indexes.native_for_slim, .unmasked_slim, .masked_slim, Array2D(vals_native, mask).slim and
     Array2D([1000, 1001, ...], mask).native *)
| KMaskHist (m : mask) (vals_native : zgrid) (ops : list mop)
            (outs : list (list (nat * nat) * list nat * list nat * list Z * zgrid))
  (* phase 3: an object built on mask m (either input form, either storage mode), then obj.apply_mask(m2);
     (slim, native) read from the result *)
| KApply (m m2 : mask) (native_input store_native : bool) (vals_native : zgrid) (vals_slim : list Z)
         (out_slim : list Z) (out_native : zgrid).

Definition inp (native_input : bool) (n : zgrid) (s : list Z) : form :=
  if native_input then Native n else Slim s.

Definition hop_of (o : zop) : hop :=
  match o with
  | ZAff a b => HMap (fun x => a * x + b)%Z
  | ZNew ni n s => HNew (inp ni n s)
  | ZBuild ni n s sn => HBuild (inp ni n s) sn
  | ZSet k i j v => HSet k i j v
  | ZNative => HNative
  | ZSlim => HSlim
  | ZAbs => HMap Z.abs
  end.
Definition inp1 (native_input : bool) (n s : list Z) : form1 := if native_input then Native1 n else Slim1 s.
Definition hop1_of (o : zop) : hop1 :=
  match o with
  | ZAff a b => HMap1 (fun x => a * x + b)%Z
  | ZNew ni n s => HNew1 (inp1 ni (hd [] n) s)
  | ZBuild ni n s sn => HBuild1 (inp1 ni (hd [] n) s) sn
  | ZSet k i j v => HSet1 k j v
  | ZNative => HNative1
  | ZSlim => HSlim1
  | ZAbs => HMap1 Z.abs
  end.
(* the masks a Mask2D object holds along a history *)
Fixpoint mstates (m : mask) (ops : list mop) : list mask :=
  m :: match ops with [] => [] | o :: t => mstates (mstep m o) t end.
Definition ramp (n : nat) : list Z := map (fun k => 1000 + Z.of_nat k)%Z (seq 0 n).
Definition mobs (n : zgrid) (m : mask) :=
  (native_for_slim m, mask_slim_indexes m false, mask_slim_indexes m true, slim_from m n, native_from 0%Z m (ramp (count m))).
Fixpoint run_mhist (n : zgrid) (m : mask) (ops : list mop) :=
  mobs n m :: match ops with [] => [] | o :: t => run_mhist n (mstep m o) t end.
Definition mobs_eqb (a b : list (nat * nat) * list nat * list nat * list Z * zgrid) : bool :=
  match a, b with
  | (a1, a2, a3, a4, a5), (b1, b2, b3, b4, b5) =>
      list_eqb pair_eqb a1 b1 && list_eqb Nat.eqb a2 b2 && list_eqb Nat.eqb a3 b3 && list_eqb Z.eqb a4 b4 && zg_eqb a5 b5
  end.

Definition agree (k : case) : bool :=
  match k with
  | KSlimFrom m n out => list_eqb Z.eqb (slim_from m n) out
  | KNativeFrom m s out => zg_eqb (native_from 0%Z m s) out
  | KNativeForSlim m out => list_eqb pair_eqb (native_for_slim m) out
  | KMaskIdx m flag out => list_eqb Nat.eqb (mask_slim_indexes m flag) out
  | KArray m ni sn n s os on =>
      let f := convert 0%Z m (inp ni n s) sn in
      list_eqb Z.eqb (to_slim m f) os && zg_eqb (to_native 0%Z m f) on
  | KGrid m ni sn ny nx sy sx osy osx ony onx =>
      let fy := convert 0%Z m (inp ni ny sy) sn in
      let fx := convert 0%Z m (inp ni nx sx) sn in
      list_eqb Z.eqb (to_slim m fy) osy && list_eqb Z.eqb (to_slim m fx) osx &&
      zg_eqb (to_native 0%Z m fy) ony && zg_eqb (to_native 0%Z m fx) onx
  | KArray1 r ni sn n s os on =>
      let f := convert_1d 0%Z r (if ni then Native1 n else Slim1 s) sn in
      list_eqb Z.eqb (to_slim_1d r f) os && list_eqb Z.eqb (to_native_1d 0%Z r f) on
  | KNativeForSlim1 r out => list_eqb Nat.eqb (native_for_slim_1d r 0) out
  | KHist m ni sn n s ops outs =>
      list_eqb (prod_eqb (list_eqb Z.eqb) zg_eqb)
               (run_hist 0%Z m (convert 0%Z m (inp ni n s) sn) (map hop_of ops)) outs
  | KHist1 r ni sn n s ops outs =>
      list_eqb (prod_eqb (list_eqb Z.eqb) (list_eqb Z.eqb))
               (run_hist_1d 0%Z r (convert_1d 0%Z r (inp1 ni n s) sn) (map hop1_of ops)) outs
  | KMaskHist m n ops outs => list_eqb mobs_eqb (run_mhist n m ops) outs
  | KApply m m2 ni sn n s os on =>
      let f2 := apply_mask 0%Z m m2 (convert 0%Z m (inp ni n s) sn) in
      list_eqb Z.eqb (obs_slim 0%Z m2 f2) os && zg_eqb (obs_native 0%Z m2 f2) on
  end.

(* specification verdict on the implementation's output: written with the spec definitions only *)
Definition spec_slim (m : mask) (n : zgrid) : list Z := map (get2 0%Z n) (unmasked_spec m).
Definition spec_native (m : mask) (slim : list Z) : zgrid :=
  (* value of the k-th unmasked pixel at its position, zero elsewhere *)
  map (fun y => map (fun x =>
        if mget m (y, x) then 0%Z
        else nth (length (filter (fun p => negb (mget m p))
                           (filter (fun p => Nat.ltb (fst p) y || (Nat.eqb (fst p) y && Nat.ltb (snd p) x))
                                   (all_coords (length m) (width m))))) slim 0%Z)
       (seq 0 (width m))) (seq 0 (length m)).
Definition spec_zero_masked (m : mask) (n : zgrid) : zgrid :=
  map (fun y => map (fun x => if mget m (y, x) then 0%Z else get2 0%Z n (y, x)) (seq 0 (width m))) (seq 0 (length m)).

(* histories, specification side: the object is a "virtual native" grid whose masked entries are never
   observable, plus the information which form is stored (only needed to interpret an in-place element assignment);
   updates are written pointwise over [seq], no loops of the model are used *)
Definition spec_set (H W : nat) (g : zgrid) (p : nat * nat) (v : Z) : zgrid :=
  map (fun y => map (fun x => if pair_eqb (y, x) p then v else get2 0%Z g (y, x)) (seq 0 W)) (seq 0 H).
Definition sstep (m : mask) (st : zgrid * bool) (o : zop) : zgrid * bool :=
  let (g, isnat) := st in
  match o with
  | ZAff a b => (map (map (fun x => a * x + b)%Z) g, isnat)
  | ZNew ni n s => if ni then (n, true) else (spec_native m s, false)
  | ZBuild ni n s sn => (if ni then n else spec_native m s, sn)
  | ZSet k i j v => (spec_set (length m) (width m) g (if isnat then (i, j) else nth k (unmasked_spec m) (0, 0)) v, isnat)
  | ZNative => (g, true)
  | ZSlim => (g, false)
  | ZAbs => (map (map Z.abs) g, isnat)
  end.
Definition sobs (m : mask) (g : zgrid) : list Z * zgrid := (spec_slim m g, spec_zero_masked m g).
Fixpoint spec_hist (m : mask) (st : zgrid * bool) (ops : list zop) : list (list Z * zgrid) :=
  sobs m (fst st) :: match ops with [] => [] | o :: t => spec_hist m (sstep m st o) t end.
Definition sinit (m : mask) (ni sn : bool) (n : zgrid) (s : list Z) : zgrid * bool :=
  (if ni then n else spec_native m s, sn).
(* 1-D histories are the one-row instance; an element assignment on a natively stored 1-D object is at (0, j) *)
Definition zop_row (o : zop) : zop := match o with ZSet k i j v => ZSet k 0 j v | _ => o end.

Definition spec_mset (m : mask) (p : nat * nat) (b : bool) : mask :=
  map (fun y => map (fun x => if pair_eqb (y, x) p then b else mget m (y, x)) (seq 0 (width m))) (seq 0 (length m)).
Definition spec_mstep (m : mask) (o : mop) : mask :=
  match o with
  | MSet y x b => spec_mset m (y, x) b
  | MNew m' => m'
  | MInvert => map (fun y => map (fun x => negb (mget m (y, x))) (seq 0 (width m))) (seq 0 (length m))
  | MCopy => m
  end.
Definition flat_filter (m : mask) (flag : bool) : list nat :=
  filter (fun i => Bool.eqb (nth i (concat m) true) flag) (seq 0 (length (concat m))).
Definition spec_mobs (n : zgrid) (m : mask) :=
  (unmasked_spec m, flat_filter m false, flat_filter m true, spec_slim m n, spec_native m (ramp (length (unmasked_spec m)))).
Fixpoint spec_mhist (n : zgrid) (m : mask) (ops : list mop) :=
  spec_mobs n m :: match ops with [] => [] | o :: t => spec_mhist n (spec_mstep m o) t end.

Definition spec_ok (k : case) : bool :=
  match k with
  | KSlimFrom m n out => list_eqb Z.eqb out (spec_slim m n)
  | KNativeFrom m s out => zg_eqb out (spec_native m s)
  | KNativeForSlim m out => list_eqb pair_eqb out (unmasked_spec m)
  | KMaskIdx m flag out =>
      list_eqb Nat.eqb out (filter (fun i => Bool.eqb (nth i (concat m) true) flag) (seq 0 (length (concat m))))
  | KArray m ni sn n s os on =>
      if ni then list_eqb Z.eqb os (spec_slim m n) && zg_eqb on (spec_zero_masked m n)
      else list_eqb Z.eqb os s && zg_eqb on (spec_native m s)
  | KGrid m ni sn ny nx sy sx osy osx ony onx =>
      if ni then list_eqb Z.eqb osy (spec_slim m ny) && list_eqb Z.eqb osx (spec_slim m nx)
                 && zg_eqb ony (spec_zero_masked m ny) && zg_eqb onx (spec_zero_masked m nx)
      else list_eqb Z.eqb osy sy && list_eqb Z.eqb osx sx
           && zg_eqb ony (spec_native m sy) && zg_eqb onx (spec_native m sx)
  | KArray1 r ni sn n s os on =>
      let m := [r] in
      if ni then list_eqb Z.eqb os (spec_slim m [n]) && zg_eqb [on] (spec_zero_masked m [n])
      else list_eqb Z.eqb os s && zg_eqb [on] (spec_native m s)
  | KNativeForSlim1 r out => list_eqb Nat.eqb out (map snd (unmasked_spec [r]))
  | KHist m ni sn n s ops outs =>
      list_eqb (prod_eqb (list_eqb Z.eqb) zg_eqb) outs (spec_hist m (sinit m ni sn n s) ops)
  | KHist1 r ni sn n s ops outs =>
      list_eqb (prod_eqb (list_eqb Z.eqb) zg_eqb) (map (fun o => (fst o, [snd o])) outs)
               (spec_hist [r] (sinit [r] ni sn [n] s) (map zop_row ops))
  | KMaskHist m n ops outs => list_eqb mobs_eqb outs (spec_mhist n m ops)
  | KApply m m2 ni sn n s os on =>
      (* a pixel keeps its value iff it is unmasked in BOTH masks *)
      let g := spec_zero_masked m (if ni then n else spec_native m s) in
      list_eqb Z.eqb os (spec_slim m2 g) && zg_eqb on (spec_zero_masked m2 g)
  end.

Definition check (k : case) : nat := verdict (agree k) (spec_ok k).
