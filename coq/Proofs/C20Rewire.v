(* C20 -- histories on one ArrayTriangles object: in-place writes of index rows followed by reads. *)
From Coq Require Import ZArith List Bool Lia.
From PAV Require Import Base.Res Base.NumOps Model.C20 Model.C20Rewire.
Import ListNotations.

Lemma set_row_length (r : nat) (row : idx3) (l : list idx3) : length (set_row r row l) = length l.
Proof.
  revert r. induction l as [|q t IH]; intros r; [destruct r; reflexivity|].
  destruct r as [|r]; cbn [set_row length]; [reflexivity|]. now rewrite IH.
Qed.

Lemma getrow_set_row (r : nat) (row : idx3) (l : list idx3) (i : nat) :
  (r < length l)%nat -> getrow (set_row r row l) i = if Nat.eqb r i then row else getrow l i.
Proof.
  unfold getrow. revert r i. induction l as [|q t IH]; intros r i Hr; [cbn [length] in Hr; lia|].
  destruct r as [|r]; cbn [set_row].
  - destruct i as [|i]; reflexivity.
  - destruct i as [|i]; cbn [nth Nat.eqb]; [reflexivity|]. apply IH. cbn [length] in Hr. lia.
Qed.

Lemma list_as_map_getrow (l : list idx3) : l = map (getrow l) (seq 0 (length l)).
Proof.
  induction l as [|q t IH]; [reflexivity|].
  cbn [length seq map]. unfold getrow at 1. cbn [nth]. f_equal.
  rewrite <- seq_shift, map_map. rewrite IH at 1. apply map_ext. intros i. reflexivity.
Qed.

Section Rewire.
  Context {O : NumOps}.
  Notation atri := (@atri O).

  Lemma a_rewires_snd (A : atri) (es : list (nat * idx3)) : snd (a_rewires A es) = snd A.
  Proof.
    unfold a_rewires. revert A. induction es as [|e r IH]; intros A; [reflexivity|].
    cbn [fold_left]. rewrite IH. reflexivity.
  Qed.

  Lemma a_rewires_length (A : atri) (es : list (nat * idx3)) : length (fst (a_rewires A es)) = length (fst A).
  Proof.
    unfold a_rewires. revert A. induction es as [|e r IH]; intros A; [reflexivity|].
    cbn [fold_left]. rewrite IH. unfold a_set_row. cbn [fst]. apply set_row_length.
  Qed.

  Lemma getrow_a_rewires (A : atri) (es : list (nat * idx3)) (i : nat) :
    rewires_in_range (fst A) es = true -> getrow (fst (a_rewires A es)) i = row_after (fst A) es i.
  Proof.
    unfold a_rewires, rewires_in_range, row_after. revert A.
    induction es as [|e r IH]; intros A HR; [reflexivity|].
    cbn [forallb] in HR. apply andb_true_iff in HR. destruct HR as [He Hr].
    apply Nat.ltb_lt in He.
    cbn [fold_left last_row].
    rewrite (IH (a_set_row A e)).
    - destruct (last_row r i) as [p|]; [reflexivity|].
      unfold a_set_row. cbn [fst]. rewrite getrow_set_row by exact He.
      destruct (Nat.eqb (fst e) i); reflexivity.
    - unfold a_set_row. cbn [fst]. rewrite set_row_length. exact Hr.
  Qed.

  (* reading after a history of in-place writes of index rows: the vertex array and the number of triangles are
     unchanged, and triangle i is made of the vertices addressed by the LAST row written to position i, or by the
     original row if the position was never written -- a function of the current arrays only *)
  Lemma a_rewires_read (A : atri) (es : list (nat * idx3)) :
    rewires_in_range (fst A) es = true ->
    snd (a_rewires A es) = snd A /\ length (fst (a_rewires A es)) = length (fst A)
    /\ a_triangles (a_rewires A es)
       = map (fun i => row_tri (snd A) (row_after (fst A) es i)) (seq 0 (length (fst A))).
  Proof.
    intros HR. split; [apply a_rewires_snd|]. split; [apply a_rewires_length|].
    unfold a_triangles. rewrite a_rewires_snd.
    rewrite (list_as_map_getrow (fst (a_rewires A es))) at 1.
    rewrite map_map, a_rewires_length. apply map_ext. intros i.
    rewrite getrow_a_rewires by exact HR. reflexivity.
  Qed.

  (* the re-wired object stays well formed when every written row addresses a vertex *)
  Lemma a_rewires_in_range (A : atri) (es : list (nat * idx3)) :
    idx_in_range A = true ->
    forallb (fun e : nat * idx3 => Nat.ltb (i0 (snd e)) (length (snd A)) && Nat.ltb (i1 (snd e)) (length (snd A))
                                   && Nat.ltb (i2 (snd e)) (length (snd A))) es = true ->
    idx_in_range (a_rewires A es) = true.
  Proof.
    intros HA HE. unfold a_rewires. revert A HA HE.
    induction es as [|e r IH]; intros A HA HE; [exact HA|].
    cbn [forallb] in HE. apply andb_true_iff in HE. destruct HE as [He Hr].
    cbn [fold_left]. apply IH.
    - unfold idx_in_range, a_set_row in *. cbn [fst snd] in *.
      clear IH Hr. revert HA. generalize (fst e) as k. generalize (fst A) as l.
      induction l as [|q t IHl]; intros k Hl; [destruct k; reflexivity|].
      cbn [forallb] in Hl. apply andb_true_iff in Hl. destruct Hl as [Hq Ht].
      destruct k as [|k]; cbn [set_row forallb].
      + rewrite He, Ht. reflexivity.
      + rewrite Hq. cbn [andb]. apply IHl. exact Ht.
    - unfold a_set_row. cbn [snd]. exact Hr.
  Qed.
End Rewire.

(* a position that no write addresses keeps its row; the last write of a position wins *)
Lemma row_after_untouched (rows : list idx3) (es : list (nat * idx3)) (i : nat) :
  forallb (fun e : nat * idx3 => negb (Nat.eqb (fst e) i)) es = true -> row_after rows es i = getrow rows i.
Proof.
  unfold row_after. induction es as [|e r IH]; intros H; [reflexivity|].
  cbn [forallb] in H. apply andb_true_iff in H. destruct H as [He Hr]. cbn [last_row].
  specialize (IH Hr). destruct (last_row r i) as [p|] eqn:E.
  - exact IH.
  - apply negb_true_iff in He. rewrite He. reflexivity.
Qed.
Lemma row_after_last (rows : list idx3) (es : list (nat * idx3)) (j : nat) (p : idx3) :
  row_after rows (es ++ [(j, p)]) j = p.
Proof.
  unfold row_after. induction es as [|e r IH].
  - cbn [app last_row fst snd]. rewrite Nat.eqb_refl. reflexivity.
  - cbn [app last_row]. destruct (last_row (r ++ [(j, p)]) j) as [q|] eqn:E; [exact IH|].
    exfalso. clear IH. induction r as [|e' r' IH']; cbn [app last_row fst snd] in E.
    + rewrite Nat.eqb_refl in E. discriminate.
    + destruct (last_row (r' ++ [(j, p)]) j); [discriminate|]. now apply IH'.
Qed.
