(* C06 -- proofs about the mapper model (Model/C06.v).  Numeric statements are at ROps. *)
From Coq Require Import ZArith List Bool Arith Lia Reals Lra Permutation.
From PAV Require Import Base.Res Base.Check Base.NumOps Base.Sum Model.C06.
Import ListNotations.
Arguments sq_n : simpl never.

(* ------------------------------------------------------------------ generic list facts *)
Lemma concat_repeat_repeat {A} (x : A) a b : concat (repeat (repeat x a) b) = repeat x (b * a).
Proof. induction b as [|b IH]; cbn; auto. rewrite IH, repeat_app. reflexivity. Qed.

Lemma nth_repeat_lt {A} (x d : A) n k : k < n -> nth k (repeat x n) d = x.
Proof. revert k; induction n as [|n IH]; intros [|k] H; cbn; auto; try lia. apply IH. lia. Qed.

Lemma filter_all_true {A} (f : A -> bool) l : (forall x, In x l -> f x = true) -> filter f l = l.
Proof. induction l as [|a l IH]; cbn; intros H; auto. rewrite (H a) by auto. f_equal. apply IH. auto. Qed.
Lemma filter_all_false {A} (f : A -> bool) l : (forall x, In x l -> f x = false) -> filter f l = [].
Proof. induction l as [|a l IH]; cbn; intros H; auto. rewrite (H a) by auto. apply IH. auto. Qed.
Lemma filter_seq_interval a n S0 : a + n <= S0 ->
  filter (fun s => (a <=? s) && (s <? a + n)) (seq 0 S0) = seq a n.
Proof.
  intros H. replace S0 with (a + (n + (S0 - a - n))) by lia.
  rewrite !seq_app, !filter_app. cbn [plus].
  rewrite filter_all_false, filter_all_true, filter_all_false; cbn; auto using app_nil_r.
  - intros x Hx. apply in_seq in Hx. apply andb_false_iff. right. apply Nat.ltb_ge. lia.
  - intros x Hx. apply in_seq in Hx. apply andb_true_iff. split; [apply Nat.leb_le | apply Nat.ltb_lt]; lia.
  - intros x Hx. apply in_seq in Hx. apply andb_false_iff. left. apply Nat.leb_gt. lia.
Qed.

(* ------------------------------------------------------------------ A. slim_for_sub and the blocks *)
Definition cnt (r : list bool) : nat := length (filter negb r).
Definition sfs_list (subs : list nat) (k n : nat) : list nat :=
  flat_map (fun i => repeat i (sq_n (nth i subs 0))) (seq k n).

Lemma sfs_row_spec r subs k : sfs_row r subs k = (sfs_list subs k (cnt r), k + cnt r).
Proof.
  revert k; induction r as [|b r IH]; intros k; cbn.
  - f_equal. lia.
  - destruct b; cbn.
    + apply IH.
    + rewrite IH. unfold sfs_list, cnt. cbn. rewrite concat_repeat_repeat. f_equal. lia.
Qed.
Lemma sfs_list_app subs k a b : sfs_list subs k (a + b) = sfs_list subs k a ++ sfs_list subs (k + a) b.
Proof. unfold sfs_list. rewrite seq_app, flat_map_app. reflexivity. Qed.
Lemma sfs_rows_spec m subs k : sfs_rows m subs k = sfs_list subs k (count_unmasked m).
Proof.
  revert k; induction m as [|r m IH]; intros k; cbn; auto.
  rewrite sfs_row_spec, IH. unfold count_unmasked. cbn. rewrite filter_app, app_length.
  symmetry. apply sfs_list_app.
Qed.
Theorem slim_for_sub_spec m subs : slim_for_sub m subs = sfs_list subs 0 (count_unmasked m).
Proof. apply sfs_rows_spec. Qed.

Definition in_block (subs : list nat) (i s : nat) : Prop :=
  offset subs i <= s < offset subs i + sq_n (nth i subs 0).

Definition gl (subs : list nat) (k : nat) : list nat :=
  flat_map (fun j => repeat (k + j) (sq_n (nth j subs 0))) (seq 0 (length subs)).
Lemma gl_cons s0 t k : gl (s0 :: t) k = repeat k (sq_n s0) ++ gl t (S k).
Proof.
  unfold gl. cbn [length seq flat_map nth]. rewrite Nat.add_0_r. f_equal.
  rewrite <- seq_shift, flat_map_concat_map, map_map, <- flat_map_concat_map.
  apply flat_map_ext. intros j. cbn [nth]. f_equal. lia.
Qed.
Lemma sfs_list_gl subs : sfs_list subs 0 (length subs) = gl subs 0.
Proof. reflexivity. Qed.
Lemma gl_length subs k : length (gl subs k) = total_sub subs.
Proof.
  unfold total_sub. revert k; induction subs as [|s0 t IH]; intros k; [reflexivity|].
  rewrite gl_cons, app_length, repeat_length, IH. reflexivity.
Qed.
Lemma sfs_list_length subs : length (sfs_list subs 0 (length subs)) = total_sub subs.
Proof. rewrite sfs_list_gl. apply gl_length. Qed.

Lemma sfs_nth_gen subs : forall k s d, s < offset subs (length subs) ->
  exists i, i < length subs /\ in_block subs i s /\ nth s (gl subs k) d = k + i.
Proof.
  induction subs as [|s0 t IH]; intros k s d Hs; cbn in Hs; [lia|].
  rewrite gl_cons.
  destruct (lt_dec s (sq_n s0)) as [Hl|Hl].
  - exists 0. split; [cbn; lia|]. split; [unfold in_block; cbn [offset nth]; lia|].
    rewrite app_nth1 by (rewrite repeat_length; lia). rewrite nth_repeat_lt by lia. lia.
  - destruct (IH (S k) (s - sq_n s0) d) as [i [Hi [Hb He]]]; [lia|].
    exists (S i). split; [cbn; lia|]. split.
    + unfold in_block in *. cbn [offset nth]. lia.
    + rewrite app_nth2 by (rewrite repeat_length; lia). rewrite repeat_length, He. lia.
Qed.
Lemma sfs_nth subs s d : s < total_sub subs ->
  exists i, i < length subs /\ in_block subs i s /\ nth s (sfs_list subs 0 (length subs)) d = i.
Proof. intros H. rewrite sfs_list_gl. destruct (sfs_nth_gen subs 0 s d H) as [i Hi]. exists i. exact Hi. Qed.

Lemma offset_mono subs i j : i < j -> j <= length subs -> offset subs i + sq_n (nth i subs 0) <= offset subs j.
Proof.
  revert i j; induction subs as [|s0 t IH]; intros i j Hij Hj; cbn in Hj; [lia|].
  destruct j as [|j]; [lia|]. destruct i as [|i]; cbn; [lia|].
  specialize (IH i j). lia.
Qed.
Lemma in_block_unique subs i j s : i < length subs -> j < length subs -> in_block subs i s -> in_block subs j s -> i = j.
Proof.
  unfold in_block. intros Hi Hj [A B] [C D].
  destruct (lt_eq_lt_dec i j) as [[H|H]|H]; auto.
  - pose proof (offset_mono subs i j H). lia.
  - pose proof (offset_mono subs j i H). lia.
Qed.
Lemma in_block_lt_total subs i s : i < length subs -> in_block subs i s -> s < total_sub subs.
Proof.
  unfold in_block, total_sub. intros Hi [A B].
  pose proof (offset_mono subs i (length subs) Hi). lia.
Qed.
(* sub-pixel s belongs to data pixel i according to the running-counter loop iff it lies in block i *)
Theorem sfs_block subs i s d : i < length subs -> s < total_sub subs ->
  (nth s (sfs_list subs 0 (length subs)) d = i <-> in_block subs i s).
Proof.
  intros Hi Hs. destruct (sfs_nth subs s d Hs) as [j [Hj [Hb He]]]. rewrite He. split.
  - intros ->. exact Hb.
  - intros H. eapply in_block_unique; eauto.
Qed.
Lemma filter_sfs_block subs i d : i < length subs ->
  filter (fun s => Nat.eqb (nth s (sfs_list subs 0 (length subs)) d) i) (seq 0 (total_sub subs)) = block subs i.
Proof.
  intros Hi. unfold block.
  rewrite <- (filter_seq_interval (offset subs i) (sq_n (nth i subs 0)) (total_sub subs)).
  - apply filter_ext_in. intros s Hin. apply in_seq in Hin.
    destruct (Nat.eqb (nth s (sfs_list subs 0 (length subs)) d) i) eqn:E.
    + apply Nat.eqb_eq in E. apply sfs_block in E; [|auto|lia]. destruct E as [A B].
      symmetry. apply andb_true_iff. split; [apply Nat.leb_le | apply Nat.ltb_lt]; lia.
    + apply Nat.eqb_neq in E. symmetry. apply not_true_iff_false. intros H. apply E.
      apply sfs_block; auto; [lia|]. apply andb_true_iff in H. destruct H as [A B].
      apply Nat.leb_le in A. apply Nat.ltb_lt in B. split; lia.
  - unfold total_sub. pose proof (offset_mono subs i (length subs) Hi). lia.
Qed.

(* ------------------------------------------------------------------ B. mapping_matrix_from: entry formula (at R) *)
Local Open Scope R_scope.
Notation Rmat := (list (list R)).
Notation mgetR := (@mget ROps).
Ltac nlia := try unfold pt in *; cbn [T ROps] in *; lia.
Ltac nlra := cbn [T ROps] in *; lra.

Lemma sumR_flat_map {A B} (f : B -> R) (g : A -> list B) l :
  sumR (map f (flat_map g l)) = sumR (map (fun x => sumR (map f (g x))) l).
Proof. induction l as [|a l IH]; cbn; auto. rewrite map_app, sumR_app, IH. reflexivity. Qed.
Lemma sumR_map_const0 {A} (l : list A) : sumR (map (fun _ => 0) l) = 0.
Proof. apply sumR_map_zero. reflexivity. Qed.

Definition mat_shape (N P : nat) (M : Rmat) : Prop := length M = N /\ Forall (fun r => length r = P) M.

Lemma upd_row_length {A} (M : list A) i f : length (upd_row M i f) = length M.
Proof. revert i; induction M as [|r M IH]; intros [|i]; cbn; auto. Qed.
Lemma nth_upd_row {A} (M : list A) i f a d : (i < length M)%nat ->
  nth a (upd_row M i f) d = if Nat.eqb i a then f (nth i M d) else nth a M d.
Proof.
  revert i a; induction M as [|r M IH]; intros i a Hi; cbn in Hi; [lia|].
  destruct i as [|i], a as [|a]; cbn; auto. apply IH. lia.
Qed.
Lemma upd_row_Forall {A} (Q : A -> Prop) (M : list A) i f :
  Forall Q M -> (forall r, Q r -> Q (f r)) -> Forall Q (upd_row M i f).
Proof.
  intros HF Hf. revert i; induction HF as [|r M Hr HM IH]; intros [|i]; cbn; auto.
Qed.
Lemma mzeros_shape N P : mat_shape N P (@mzeros ROps N P).
Proof.
  unfold mat_shape, mzeros. rewrite repeat_length. split; auto.
  apply Forall_forall. intros r Hr. apply repeat_spec in Hr. subst. unfold zeros. apply repeat_length.
Qed.
Lemma mget_mzeros N P a b : mgetR (@mzeros ROps N P) a b = 0.
Proof.
  unfold mget, mzeros. destruct (lt_dec a N) as [H|H].
  - rewrite nth_repeat_lt by lia. apply nth_zeros_R.
  - rewrite (nth_overflow (repeat _ _)) by (rewrite repeat_length; lia). destruct b; reflexivity.
Qed.
Lemma mat_add_shape N P M i j v : mat_shape N P M -> mat_shape N P (@mat_add ROps M i j v).
Proof.
  intros [HN HP]. unfold mat_shape, mat_add. rewrite upd_row_length. split; auto.
  apply upd_row_Forall; auto. intros r Hr. cbv beta in *. rewrite (@upd_add_length ROps). exact Hr.
Qed.
Lemma shape_row N P M i : mat_shape N P M -> (i < N)%nat -> length (nth i M []) = P.
Proof.
  intros [HN HP] Hi. rewrite Forall_forall in HP. apply HP. apply nth_In. lia.
Qed.
Lemma mget_mat_add N P M i j v a b : mat_shape N P M -> (i < N)%nat -> (j < P)%nat ->
  mgetR (@mat_add ROps M i j v) a b = mgetR M a b + (if Nat.eqb i a && Nat.eqb j b then v else 0).
Proof.
  intros HS Hi Hj. unfold mget, mat_add. rewrite nth_upd_row by (destruct HS; nlia).
  destruct (Nat.eqb i a) eqn:E; cbn [andb].
  - apply Nat.eqb_eq in E. subst a.
    change (@zero ROps) with 0. rewrite nth_upd_add by (rewrite (shape_row N P); auto). reflexivity.
  - lra.
Qed.

Definition ent := (nat * Z * R)%type.
Definition mm_fold (es : list ent) (M : Rmat) : Rmat :=
  fold_left (fun M e => @mat_add ROps M (fst (fst e)) (Z.to_nat (snd (fst e))) (snd e)) es M.
Definition ent_valid (N P : nat) (e : ent) : Prop := (fst (fst e) < N)%nat /\ (0 <= snd (fst e) < Z.of_nat P)%Z.

Lemma np_index_in_range p P : (0 <= p < Z.of_nat P)%Z -> np_index p P = Some (Z.to_nat p).
Proof.
  intros H. unfold np_index.
  destruct (Z.leb_spec 0 p); [|lia]. destruct (Z.ltb_spec p (Z.of_nat P)); [|lia]. reflexivity.
Qed.
Lemma mm_apply_ok N P es : forall M, Forall (ent_valid N P) es -> @mm_apply ROps es N P M = Ok (mm_fold es M).
Proof.
  induction es as [|[[i p] v] es IH]; intros M HF; [reflexivity|].
  inversion HF as [|? ? [Hi Hp] HF']; subst. cbn [fst snd] in Hi, Hp.
  cbn [mm_apply]. destruct (Nat.ltb_spec i N) as [_|?]; [|lia].
  rewrite np_index_in_range by lia. rewrite IH by exact HF'. reflexivity.
Qed.
Definition hit (a b : nat) (e : ent) : R :=
  if Nat.eqb (fst (fst e)) a && Nat.eqb (Z.to_nat (snd (fst e))) b then snd e else 0.
Lemma mm_fold_shape N P es : forall M, mat_shape N P M -> mat_shape N P (mm_fold es M).
Proof. induction es as [|e es IH]; intros M HS; cbn; auto. apply IH. apply mat_add_shape. exact HS. Qed.
Lemma mm_fold_get N P es a b : forall M, mat_shape N P M -> Forall (ent_valid N P) es ->
  mgetR (mm_fold es M) a b = mgetR M a b + sumR (map (hit a b) es).
Proof.
  induction es as [|e es IH]; intros M HS HF; cbn [mm_fold fold_left map sumR]; [lra|].
  inversion HF as [|? ? [Hi Hp] HF']; subst.
  change (fold_left _ es ?X) with (mm_fold es X).
  rewrite IH; auto using mat_add_shape.
  rewrite (mget_mat_add N P) by (first [exact HS | exact Hi | nlia]). unfold hit. nlra.
Qed.

(* the entry the property claims: sum over the sub-pixels of data pixel i of sub_fraction_i * weight, over the
   mappings of that sub-pixel that point to source pixel p *)
Definition entry_spec (mp : list (list Z)) (sz : list nat) (wt : Rmat) (sfs : list nat) (fr : list R) (i p : nat) : R :=
  sumR (map (fun s =>
      if Nat.eqb (nth s sfs 0%nat) i then
        sumR (map (fun k => if Z.eqb (nthZ (nth s mp []) k) (Z.of_nat p)
                            then nth i fr 0 * nth k (nth s wt []) 0 else 0) (seq 0 (nth s sz 0%nat)))
      else 0) (seq 0 (length sfs))).

Definition arrays_ok (N P : nat) (mp : list (list Z)) (sz sfs : list nat) : Prop :=
  forall s, (s < length sfs)%nat ->
    (nth s sfs 0 < N)%nat /\ forall k, (k < nth s sz 0)%nat -> (0 <= nthZ (nth s mp []) k < Z.of_nat P)%Z.

Lemma mm_entries_valid N P mp sz wt sfs fr : arrays_ok N P mp sz sfs ->
  Forall (ent_valid N P) (@mm_entries ROps mp sz wt sfs fr).
Proof.
  intros H. unfold mm_entries. apply Forall_forall. intros e He.
  apply in_flat_map in He. destruct He as [s [Hs He]]. apply in_seq in Hs.
  apply in_map_iff in He. destruct He as [k [<- Hk]]. apply in_seq in Hk.
  destruct (H s) as [A B]; [lia|]. split; cbn; [exact A | apply B; lia].
Qed.

Theorem entry_formula N P mp sz wt sfs fr : arrays_ok N P mp sz sfs ->
  exists M, @mapping_matrix ROps mp sz wt P N sfs fr = Ok M /\ mat_shape N P M /\
            forall i p, (i < N)%nat -> (p < P)%nat -> mgetR M i p = entry_spec mp sz wt sfs fr i p.
Proof.
  intros H. pose proof (mm_entries_valid N P mp sz wt sfs fr H) as HV.
  exists (mm_fold (@mm_entries ROps mp sz wt sfs fr) (@mzeros ROps N P)). split; [|split].
  - unfold mapping_matrix. apply mm_apply_ok. exact HV.
  - apply mm_fold_shape, mzeros_shape.
  - intros i p Hi Hp. rewrite (mm_fold_get N P) by (auto using mzeros_shape).
    rewrite mget_mzeros, Rplus_0_l. unfold mm_entries, entry_spec. rewrite sumR_flat_map.
    apply sumR_map_ext. intros s Hs. apply in_seq in Hs. rewrite map_map.
    destruct (Nat.eqb (nth s sfs 0%nat) i) eqn:E.
    + apply sumR_map_ext. intros k Hk. apply in_seq in Hk. unfold hit. cbn [fst snd]. rewrite E. cbn [andb].
      apply Nat.eqb_eq in E. destruct (H s) as [_ B]; [lia|]. specialize (B k ltac:(lia)).
      destruct (Z.eqb_spec (nthZ (nth s mp []) k) (Z.of_nat p)) as [Q|Q].
      * rewrite Q, Nat2Z.id, Nat.eqb_refl. rewrite E. reflexivity.
      * destruct (Nat.eqb_spec (Z.to_nat (nthZ (nth s mp []) k)) p) as [Q'|Q']; [|reflexivity].
        exfalso. apply Q. lia.
    + apply sumR_map_zero. intros k Hk. unfold hit. cbn [fst snd]. rewrite E. reflexivity.
Qed.

(* ------------------------------------------------------------------ C. rows: block form, sums, signs *)
Lemma sumR_if_filter {A} (b : A -> bool) (g : A -> R) l :
  sumR (map (fun s => if b s then g s else 0) l) = sumR (map g (filter b l)).
Proof. induction l as [|a l IH]; cbn; auto. destruct (b a); cbn; rewrite IH; lra. Qed.
Lemma sumR_const {A} (c : R) (l : list A) : sumR (map (fun _ => c) l) = INR (length l) * c.
Proof. induction l as [|a l IH]; [cbn; lra|]. cbn [map sumR length]. rewrite IH, S_INR. lra. Qed.
Lemma sumR_seq_pick P q (v : R) : (q < P)%nat ->
  sumR (map (fun p => if Nat.eqb q p then v else 0) (seq 0 P)) = v.
Proof.
  intros H.
  rewrite (sumR_map_ext _ (fun p => if Nat.eqb p q then (fun _ => v) p else 0)).
  - rewrite (sumR_indicator Nat.eqb (fun _ => v) q); [|apply Nat.eqb_eq|apply seq_NoDup].
    destruct (existsb (fun s => Nat.eqb s q) (seq 0 P)) eqn:E; auto.
    exfalso. apply not_true_iff_false in E. apply E. apply existsb_exists. exists q. split.
    + apply in_seq. lia.
    + apply Nat.eqb_refl.
  - intros p _. rewrite Nat.eqb_sym. reflexivity.
Qed.
Lemma sumR_seq_pickZ P (z : Z) (v : R) : (0 <= z < Z.of_nat P)%Z ->
  sumR (map (fun p => if Z.eqb z (Z.of_nat p) then v else 0) (seq 0 P)) = v.
Proof.
  intros H. etransitivity; [|apply (sumR_seq_pick P (Z.to_nat z) v); lia].
  apply sumR_map_ext. intros p _.
  destruct (Z.eqb_spec z (Z.of_nat p)); destruct (Nat.eqb_spec (Z.to_nat z) p); auto; exfalso; lia.
Qed.

(* weight carried by sub-pixel s towards source pixel p, as listed in the arrays *)
Definition listed_weight (mp : list (list Z)) (sz : list nat) (wt : Rmat) (s p : nat) : R :=
  sumR (map (fun k => if Z.eqb (nthZ (nth s mp []) k) (Z.of_nat p) then nth k (nth s wt []) 0 else 0)
            (seq 0 (nth s sz 0%nat))).
Lemma entry_spec_listed mp sz wt sfs fr i p :
  entry_spec mp sz wt sfs fr i p =
  sumR (map (fun s => nth i fr 0 * listed_weight mp sz wt s p) (filter (fun s => Nat.eqb (nth s sfs 0%nat) i) (seq 0 (length sfs)))).
Proof.
  unfold entry_spec. rewrite <- sumR_if_filter. apply sumR_map_ext. intros s _.
  destruct (Nat.eqb (nth s sfs 0%nat) i); auto. unfold listed_weight.
  rewrite <- sumR_map_scal. apply sumR_map_ext. intros k _.
  destruct (Z.eqb _ _); lra.
Qed.
Lemma listed_weight_total P mp sz wt s :
  (forall k, (k < nth s sz 0)%nat -> (0 <= nthZ (nth s mp []) k < Z.of_nat P)%Z) ->
  sumR (map (fun p => listed_weight mp sz wt s p) (seq 0 P)) = sumR (map (fun k => nth k (nth s wt []) 0) (seq 0 (nth s sz 0%nat))).
Proof.
  intros H. unfold listed_weight. rewrite sumR_swap. apply sumR_map_ext. intros k Hk. apply in_seq in Hk.
  apply sumR_seq_pickZ. apply H. lia.
Qed.

(* the mapper-level hypotheses: the arrays describe S = total_sub subs sub-pixels of the unmasked pixels of m *)
Record mapper_ok (m : mask) (subs : list nat) (P : nat) (mp : list (list Z)) (sz : list nat) : Prop := {
  mo_len : length subs = count_unmasked m;
  mo_sub : forall i, (i < length subs)%nat -> (1 <= nth i subs 0)%nat;
  mo_idx : forall s k, (s < total_sub subs)%nat -> (k < nth s sz 0)%nat -> (0 <= nthZ (nth s mp []) k < Z.of_nat P)%Z }.

Lemma mapper_arrays_ok m subs P mp sz : mapper_ok m subs P mp sz ->
  arrays_ok (count_unmasked m) P mp sz (slim_for_sub m subs).
Proof.
  intros [HL HS HI]. rewrite slim_for_sub_spec, <- HL. intros s Hs. rewrite sfs_list_length in Hs. split.
  - destruct (sfs_nth subs s 0%nat Hs) as [i [Hi [_ ->]]]. exact Hi.
  - intros k Hk. apply HI; auto.
Qed.

Lemma nth_map_lt {A B} (f : A -> B) l i d d' : (i < length l)%nat -> nth i (map f l) d = f (nth i l d').
Proof. revert i; induction l as [|a l IH]; intros [|i] H; cbn in *; auto; try lia. apply IH. lia. Qed.
Lemma nth_sub_fractions subs i : (i < length subs)%nat ->
  nth i (@sub_fractions ROps subs) 0 = 1 / INR (sq_n (nth i subs 0%nat)).
Proof.
  intros Hi. unfold sub_fractions. rewrite (nth_map_lt _ _ _ _ 0%nat) by exact Hi.
  unfold one, ofNat. cbn [div ofZ ROps]. rewrite <- INR_IZR_INZ. reflexivity.
Qed.

(* entry (i, p) = sum over the sub-pixels of image pixel i of (1 / sub_size_i^2) * weight of source pixel p *)
Theorem entry_block_formula m subs P mp sz wt : mapper_ok m subs P mp sz ->
  exists M, @mapping_matrix ROps mp sz wt P (count_unmasked m) (slim_for_sub m subs) (@sub_fractions ROps subs) = Ok M
    /\ mat_shape (count_unmasked m) P M
    /\ forall i p, (i < count_unmasked m)%nat -> (p < P)%nat ->
         mgetR M i p = sumR (map (fun s => 1 / INR (sq_n (nth i subs 0%nat)) * listed_weight mp sz wt s p) (block subs i)).
Proof.
  intros HM. destruct (entry_formula _ P mp sz wt _ (@sub_fractions ROps subs) (mapper_arrays_ok _ _ _ _ _ HM)) as [M [E [HS HE]]].
  exists M. split; [exact E|]. split; [exact HS|]. intros i p Hi Hp. rewrite HE by auto.
  rewrite entry_spec_listed. destruct HM as [HL _ _]. rewrite slim_for_sub_spec, <- HL, sfs_list_length.
  rewrite filter_sfs_block by lia. rewrite nth_sub_fractions by lia. reflexivity.
Qed.

Lemma block_length subs i : length (block subs i) = sq_n (nth i subs 0%nat).
Proof. unfold block. apply seq_length. Qed.
Lemma in_block_lt subs i s : (i < length subs)%nat -> In s (block subs i) -> (s < total_sub subs)%nat.
Proof.
  intros Hi Hin. unfold block in Hin. apply in_seq in Hin. apply (in_block_lt_total subs i s Hi). unfold in_block. lia.
Qed.

(* rows sum to one: every sub-pixel's listed weights sum to one *)
Theorem rows_sum_to_one m subs P mp sz wt M : mapper_ok m subs P mp sz ->
  (forall s, (s < total_sub subs)%nat -> sumR (map (fun k => nth k (nth s wt []) 0) (seq 0 (nth s sz 0%nat))) = 1) ->
  @mapping_matrix ROps mp sz wt P (count_unmasked m) (slim_for_sub m subs) (@sub_fractions ROps subs) = Ok M ->
  forall i, (i < count_unmasked m)%nat -> sumR (map (fun p => mgetR M i p) (seq 0 P)) = 1.
Proof.
  intros HM HW E i Hi. destruct (entry_block_formula m subs P mp sz wt HM) as [M' [E' [_ HE]]].
  rewrite E in E'. injection E' as <-. destruct HM as [HL HS HI].
  rewrite (sumR_map_ext _ (fun p => sumR (map (fun s => 1 / INR (sq_n (nth i subs 0%nat)) * listed_weight mp sz wt s p) (block subs i)))).
  2:{ intros p Hp. apply in_seq in Hp. apply HE; auto. lia. }
  rewrite sumR_swap.
  rewrite (sumR_map_ext _ (fun _ => 1 / INR (sq_n (nth i subs 0%nat)))).
  - rewrite sumR_const, block_length.
    assert (0 < INR (sq_n (nth i subs 0%nat))).
    { apply lt_0_INR. specialize (HS i ltac:(lia)). unfold sq_n. nia. }
    field. lra.
  - intros s Hs. rewrite sumR_map_scal. rewrite (listed_weight_total P).
    + rewrite HW; [lra|]. apply (in_block_lt subs i); auto. lia.
    + intros k Hk. apply HI; auto. apply (in_block_lt subs i); auto. lia.
Qed.

(* rows are non-negative when the listed weights are *)
Theorem rows_nonneg m subs P mp sz wt M : mapper_ok m subs P mp sz ->
  (forall s k, (s < total_sub subs)%nat -> (k < nth s sz 0)%nat -> 0 <= nth k (nth s wt []) 0) ->
  @mapping_matrix ROps mp sz wt P (count_unmasked m) (slim_for_sub m subs) (@sub_fractions ROps subs) = Ok M ->
  forall i p, (i < count_unmasked m)%nat -> (p < P)%nat -> 0 <= mgetR M i p.
Proof.
  intros HM HW E i p Hi Hp. destruct (entry_block_formula m subs P mp sz wt HM) as [M' [E' [_ HE]]].
  rewrite E in E'. injection E' as <-. rewrite HE by auto. destruct HM as [HL HS HI].
  apply sumR_nonneg. apply Forall_forall. intros x Hx. apply in_map_iff in Hx. destruct Hx as [s [<- Hs]].
  assert (0 < INR (sq_n (nth i subs 0%nat))).
  { apply lt_0_INR. specialize (HS i ltac:(lia)). unfold sq_n. nia. }
  apply Rmult_le_pos.
  - apply Rlt_le. apply Rdiv_lt_0_compat; lra.
  - unfold listed_weight. apply sumR_nonneg. apply Forall_forall. intros y Hy. apply in_map_iff in Hy.
    destruct Hy as [k [<- Hk]]. apply in_seq in Hk. destruct (Z.eqb _ _); [|lra].
    apply HW; [|lia]. apply (in_block_lt subs i); auto. lia.
Qed.

(* ------------------------------------------------------------------ F. rectangular cells *)
Notation Rpt := (R * R)%type.

Lemma floor_between (u : R) (k : Z) : (IZR k <= u < IZR k + 1) <-> Rfloor u = k.
Proof.
  split; [apply Rfloor_unique|]. intros <-. apply Rfloor_spec.
Qed.

Ltac runfold := unfold half, two, one, zero; cbn [add sub mul div opp ofZ leb ltb eqb ROps fst snd]; cbn [T ROps].

(* the position of a point in cell units, measured from the top / left edge of the mesh *)
Definition cu_row (cg : @cellgeom ROps) (p : Rpt) : R := (g_top cg - fst p) / g_h cg.
Definition cu_col (cg : @cellgeom ROps) (p : Rpt) : R := (snd p - g_left cg) / g_w cg.

Lemma cell_contains_iff (cg : @cellgeom ROps) r c (p : Rpt) : g_h cg > 0 -> g_w cg > 0 ->
  (@cell_contains ROps cg r c p = true <-> Rfloor (cu_row cg p) = r /\ Rfloor (cu_col cg p) = c).
Proof.
  intros Hh Hw. unfold cell_contains, cu_row, cu_col. runfold.
  rewrite !andb_true_iff, !Rltb_true, !Rleb_true, <- !floor_between, !plus_IZR.
  assert (A : forall a b, b > 0 -> forall k, (k <= a / b <-> k * b <= a)).
  { intros a b Hb k. split; intros Hk.
    - apply (Rmult_le_compat_r b) in Hk; [|lra]. unfold Rdiv in Hk. rewrite Rmult_assoc, Rinv_l in Hk; lra.
    - apply (Rmult_le_reg_r b); [lra|]. unfold Rdiv. rewrite Rmult_assoc, Rinv_l; lra. }
  assert (B : forall a b, b > 0 -> forall k, (a / b < k <-> a < k * b)).
  { intros a b Hb k. split; intros Hk.
    - apply (Rmult_lt_compat_r b) in Hk; [|lra]. unfold Rdiv in Hk. rewrite Rmult_assoc, Rinv_l in Hk; lra.
    - apply (Rmult_lt_reg_r b); [lra|]. unfold Rdiv. rewrite Rmult_assoc, Rinv_l; lra. }
  rewrite (A _ _ Hh), (B _ _ Hh), (A _ _ Hw), (B _ _ Hw). cbn [T ROps] in *. lra.
Qed.

Lemma pixel_rc_floor (g : @rmesh ROps) (p : Rpt) : ps0 g > 0 -> ps1 g > 0 ->
  0 <= cu_row (@geom_of_mesh ROps g) p -> 0 <= cu_col (@geom_of_mesh ROps g) p ->
  @pixel_rc ROps g p = (Rfloor (cu_row (@geom_of_mesh ROps g) p), Rfloor (cu_col (@geom_of_mesh ROps g) p)).
Proof.
  intros H0 H1 Hu Hc. unfold pixel_rc, centres_scaled. cbv zeta. runfold. f_equal.
  - rewrite <- trunc_R_nonneg by assumption. f_equal.
    unfold cu_row, geom_of_mesh. cbn [g_top g_h]. runfold. rewrite minus_IZR. cbn [T ROps] in *. field. lra.
  - rewrite <- trunc_R_nonneg by assumption. f_equal.
    unfold cu_col, geom_of_mesh. cbn [g_left g_w]. runfold. rewrite minus_IZR. cbn [T ROps] in *. field. lra.
Qed.

(* for a point not above / left of the mesh, the code's (row, column) is the unique cell containing it *)
Theorem pixel_rc_cell (g : @rmesh ROps) (p : Rpt) r c : ps0 g > 0 -> ps1 g > 0 ->
  0 <= cu_row (@geom_of_mesh ROps g) p -> 0 <= cu_col (@geom_of_mesh ROps g) p ->
  (@cell_contains ROps (@geom_of_mesh ROps g) r c p = true <-> @pixel_rc ROps g p = (r, c)).
Proof.
  intros H0 H1 Hu Hc. rewrite pixel_rc_floor by assumption.
  rewrite cell_contains_iff by (cbn [geom_of_mesh g_h g_w]; assumption).
  split; [intros [-> ->]; reflexivity | intros E; injection E; auto].
Qed.

(* ---- min / max of a list as computed by np.min / np.max ---- *)
Lemma minT_R a b : @minT ROps a b = Rmin a b.
Proof.
  unfold minT. cbn [ltb ROps]. unfold Rmin. destruct (Rltb b a) eqn:E; rbool; destruct (Rle_dec a b); lra.
Qed.
Lemma maxT_R a b : @maxT ROps a b = Rmax a b.
Proof.
  unfold maxT. cbn [ltb ROps]. unfold Rmax. destruct (Rltb a b) eqn:E; rbool; destruct (Rle_dec a b); lra.
Qed.
Lemma fold_min_le l : forall a, fold_left (@minT ROps) l a <= a /\ forall x, In x l -> fold_left (@minT ROps) l a <= x.
Proof.
  induction l as [|y l IH]; intros a; cbn [fold_left]; [split; [lra | intros x []]|].
  destruct (IH (@minT ROps a y)) as [A B]. rewrite minT_R in *. pose proof (Rmin_l a y). pose proof (Rmin_r a y).
  split; [lra|]. intros x [<-|Hx]; [lra | auto].
Qed.
Lemma fold_max_ge l : forall a, a <= fold_left (@maxT ROps) l a /\ forall x, In x l -> x <= fold_left (@maxT ROps) l a.
Proof.
  induction l as [|y l IH]; intros a; cbn [fold_left]; [split; [lra | intros x []]|].
  destruct (IH (@maxT ROps a y)) as [A B]. rewrite maxT_R in *. pose proof (Rmax_l a y). pose proof (Rmax_r a y).
  split; [lra|]. intros x [<-|Hx]; [lra | auto].
Qed.
Lemma minL_le (l : list R) x : In x l -> @minL ROps l <= x.
Proof.
  destruct l as [|a l]; [intros []|]. cbn [minL]. destruct (fold_min_le l a) as [A B]. intros [<-|H]; auto.
Qed.
Lemma maxL_ge (l : list R) x : In x l -> x <= @maxL ROps l.
Proof.
  destruct l as [|a l]; [intros []|]. cbn [maxL]. destruct (fold_max_ge l a) as [A B]. intros [<-|H]; auto.
Qed.

(* ---- the overlaid mesh ---- *)
Section Overlay.
  Variables (n0 n1 : Z) (grid : list Rpt) (b : R).
  Hypothesis Hn0 : (0 < n0)%Z.
  Hypothesis Hn1 : (0 < n1)%Z.
  Hypothesis Hb : 0 < b.
  Let g := @overlay ROps (n0, n1) grid b.
  Let cg := @geom_of_extent ROps (n0, n1) grid b.

  Lemma overlay_geom : @geom_of_mesh ROps g = cg.
  Proof.
    unfold g, cg, geom_of_mesh, geom_of_extent, overlay. cbn [shape0 shape1 ps0 ps1 origin0 origin1 fst snd]. runfold.
    assert (IZR n0 <> 0) by (apply not_0_IZR; lia). assert (IZR n1 <> 0) by (apply not_0_IZR; lia).
    f_equal; cbn [T ROps] in *; field; assumption.
  Qed.
  Lemma extent_pos p : In p grid -> g_h cg > 0 /\ g_w cg > 0.
  Proof.
    intros Hp. unfold cg, geom_of_extent. cbn [g_h g_w fst snd]. runfold.
    pose proof (minL_le (map fst grid) (fst p) (in_map fst _ _ Hp)).
    pose proof (maxL_ge (map fst grid) (fst p) (in_map fst _ _ Hp)).
    pose proof (minL_le (map snd grid) (snd p) (in_map snd _ _ Hp)).
    pose proof (maxL_ge (map snd grid) (snd p) (in_map snd _ _ Hp)).
    assert (0 < IZR n0) by (apply IZR_lt; lia). assert (0 < IZR n1) by (apply IZR_lt; lia).
    split; apply Rdiv_lt_0_compat; cbn [T ROps] in *; lra.
  Qed.
  (* every point of the grid lies strictly inside the mesh: 0 < u < n in cell units on both axes *)
  Lemma overlay_inside p : In p grid -> 0 < cu_row cg p < IZR n0 /\ 0 < cu_col cg p < IZR n1.
  Proof.
    intros Hp. destruct (extent_pos p Hp) as [Hh Hw]. unfold cu_row, cu_col.
    pose proof (minL_le (map fst grid) (fst p) (in_map fst _ _ Hp)).
    pose proof (maxL_ge (map fst grid) (fst p) (in_map fst _ _ Hp)).
    pose proof (minL_le (map snd grid) (snd p) (in_map snd _ _ Hp)).
    pose proof (maxL_ge (map snd grid) (snd p) (in_map snd _ _ Hp)).
    assert (P0 : 0 < IZR n0) by (apply IZR_lt; lia). assert (P1 : 0 < IZR n1) by (apply IZR_lt; lia).
    assert (Eh : g_h cg * IZR n0 = (g_top cg) - (@minL ROps (map fst grid) - b)).
    { unfold cg, geom_of_extent. cbn [g_h g_top fst snd]. runfold. cbn [T ROps] in *. field. lra. }
    assert (Ew : g_w cg * IZR n1 = (@maxL ROps (map snd grid) + b) - g_left cg).
    { unfold cg, geom_of_extent. cbn [g_w g_left fst snd]. runfold. cbn [T ROps] in *. field. lra. }
    assert (Et : g_top cg = @maxL ROps (map fst grid) + b) by reflexivity.
    assert (El : g_left cg = @minL ROps (map snd grid) - b) by reflexivity.
    cbn [T ROps] in *.
    repeat split.
    - apply Rdiv_lt_0_compat; lra.
    - apply (Rmult_lt_reg_r (g_h cg)); [lra|]. unfold Rdiv. rewrite Rmult_assoc, Rinv_l by lra. lra.
    - apply Rdiv_lt_0_compat; lra.
    - apply (Rmult_lt_reg_r (g_w cg)); [lra|]. unfold Rdiv. rewrite Rmult_assoc, Rinv_l by lra. lra.
  Qed.
  Lemma floor_range u n : 0 < u < IZR n -> (0 <= Rfloor u < n)%Z.
  Proof.
    intros [A B]. pose proof (Rfloor_spec u) as [C D]. split.
    - assert (IZR (-1) < IZR (Rfloor u)) by (cbn; lra). apply lt_IZR in H. lia.
    - assert (IZR (Rfloor u) < IZR n) by lra. apply lt_IZR in H. exact H.
  Qed.

  (* the code's pixel index of a grid point is in range and is the index of the unique cell that contains it *)
  Theorem overlay_pixel_index p : In p grid ->
    let rc := @pixel_rc ROps g p in
    (0 <= fst rc < n0)%Z /\ (0 <= snd rc < n1)%Z /\ @pixel_index ROps g p = (fst rc * n1 + snd rc)%Z /\
    forall r c, @cell_contains ROps cg r c p = true <-> (r, c) = rc.
  Proof.
    intros Hp. cbv zeta. destruct (extent_pos p Hp) as [Hh Hw]. destruct (overlay_inside p Hp) as [Hu Hc].
    assert (G0 : ps0 g > 0) by (change (ps0 g) with (g_h (@geom_of_mesh ROps g)); rewrite overlay_geom; exact Hh).
    assert (G1 : ps1 g > 0) by (change (ps1 g) with (g_w (@geom_of_mesh ROps g)); rewrite overlay_geom; exact Hw).
    assert (E : @pixel_rc ROps g p = (Rfloor (cu_row cg p), Rfloor (cu_col cg p))).
    { rewrite pixel_rc_floor; rewrite ?overlay_geom; auto; lra. }
    unfold pixel_index. rewrite E. cbn [fst snd].
    split; [apply floor_range; assumption|]. split; [apply floor_range; assumption|]. split; [reflexivity|].
    intros r c; split.
    - intros H. apply cell_contains_iff in H; auto. destruct H as [-> ->]. reflexivity.
    - intros H. injection H as -> ->. apply cell_contains_iff; auto.
  Qed.
End Overlay.

(* ------------------------------------------------------------------ G. the rectangular mapper, end to end *)
Lemma nth_map_default {A B} (f : A -> B) l i d : nth i (map f l) (f d) = f (nth i l d).
Proof. apply map_nth. Qed.

Section RectMapper.
  Variables (m : mask) (subs : list nat) (grid : list Rpt) (n0 n1 : Z) (b : R).
  Hypothesis Hlen : length subs = count_unmasked m.
  Hypothesis Hsub : forall i, (i < length subs)%nat -> (1 <= nth i subs 0)%nat.
  Hypothesis Hgrid : length grid = total_sub subs.
  Hypothesis Hn0 : (0 < n0)%Z.
  Hypothesis Hn1 : (0 < n1)%Z.
  Hypothesis Hb : 0 < b.
  Let g := @overlay ROps (n0, n1) grid b.
  Let cg := @geom_of_extent ROps (n0, n1) grid b.
  Let mp := fst (fst (@rect_psw ROps g grid)).
  Let sz := snd (fst (@rect_psw ROps g grid)).
  Let wt := snd (@rect_psw ROps g grid).
  Let P := Z.to_nat (n0 * n1).
  Let pt0 : Rpt := (0, 0).

  Lemma rect_sz s : (s < length grid)%nat -> nth s sz 0%nat = 1%nat.
  Proof. intros H. unfold sz, rect_psw. cbn [fst snd]. rewrite (nth_map_lt _ _ _ _ pt0) by exact H. reflexivity. Qed.
  Lemma rect_mp s : (s < length grid)%nat -> nthZ (nth s mp []) 0 = @pixel_index ROps g (nth s grid pt0).
  Proof. intros H. unfold mp, rect_psw. cbn [fst snd]. rewrite (nth_map_lt _ _ _ _ pt0) by exact H. reflexivity. Qed.
  Lemma rect_wt s : (s < length grid)%nat -> nth 0 (nth s wt []) 0 = 1.
  Proof. intros H. unfold wt, rect_psw. cbn [fst snd]. rewrite (nth_map_lt _ _ _ _ pt0) by exact H. reflexivity. Qed.

  Lemma rect_mapper_ok : mapper_ok m subs P mp sz.
  Proof.
    constructor; auto. intros s k Hs Hk. rewrite <- Hgrid in Hs. rewrite rect_sz in Hk by exact Hs.
    assert (k = 0%nat) by lia. subst k. rewrite rect_mp by exact Hs.
    destruct (overlay_pixel_index n0 n1 grid b Hn0 Hn1 Hb (nth s grid pt0) (nth_In _ _ Hs)) as [A [B [C _]]].
    fold g in A, B, C. rewrite C. unfold P. nia.
  Qed.

  Lemma rect_listed s p : (s < length grid)%nat -> (p < P)%nat ->
    listed_weight mp sz wt s p = @rect_weight ROps cg (nth s grid pt0) p.
  Proof.
    intros Hs Hp. unfold listed_weight. rewrite rect_sz by exact Hs. cbn [seq map sumR].
    rewrite rect_mp, rect_wt by exact Hs.
    destruct (overlay_pixel_index n0 n1 grid b Hn0 Hn1 Hb (nth s grid pt0) (nth_In _ _ Hs)) as [A [B [C D]]].
    fold g cg in A, B, C, D. rewrite C. unfold rect_weight. cbn [g_n1 cg geom_of_extent snd].
    set (rc := @pixel_rc ROps g (nth s grid pt0)) in *.
    destruct (@cell_contains ROps cg (Z.of_nat p / n1) (Z.of_nat p mod n1) (nth s grid pt0)) eqn:E.
    - apply D in E. rewrite <- E. cbn [fst snd].
      rewrite Z.mul_comm, <- Z.div_mod by lia. rewrite Z.eqb_refl. unfold one. cbn. lra.
    - destruct (Z.eqb_spec (fst rc * n1 + snd rc) (Z.of_nat p)) as [Q|Q]; [|unfold zero; cbn; lra].
      exfalso. apply not_true_iff_false in E. apply E. apply D. rewrite <- Q.
      rewrite (Z.mul_comm (fst rc)). destruct rc as [r c]. cbn [fst snd] in *. f_equal.
      + symmetry. apply (Z.div_unique_pos _ _ _ c); lia.
      + symmetry. apply (Z.mod_unique_pos _ _ r c); lia.
  Qed.

  (* the mapping matrix of a rectangular mapper: flux conserved, non-negative, entry = claimed interpolation *)
  Theorem rect_mapper_matrix :
    exists M, @mapping_matrix ROps mp sz wt P (count_unmasked m) (slim_for_sub m subs) (@sub_fractions ROps subs) = Ok M
      /\ mat_shape (count_unmasked m) P M
      /\ (forall i, (i < count_unmasked m)%nat -> sumR (map (fun p => mgetR M i p) (seq 0 P)) = 1)
      /\ (forall i p, (i < count_unmasked m)%nat -> (p < P)%nat -> 0 <= mgetR M i p)
      /\ (forall i p, (i < count_unmasked m)%nat -> (p < P)%nat ->
            mgetR M i p = sumR (map (fun s => 1 / INR (sq_n (nth i subs 0%nat)) * @rect_weight ROps cg (nth s grid pt0) p)
                                    (block subs i))).
  Proof.
    destruct (entry_block_formula m subs P mp sz wt rect_mapper_ok) as [M [E [HS HE]]].
    exists M. split; [exact E|]. split; [exact HS|]. split; [|split].
    - apply (rows_sum_to_one m subs P mp sz wt M rect_mapper_ok); auto.
      intros s Hs. rewrite <- Hgrid in Hs. rewrite rect_sz by exact Hs. cbn [seq map sumR]. rewrite rect_wt by exact Hs. lra.
    - apply (rows_nonneg m subs P mp sz wt M rect_mapper_ok); auto.
      intros s k Hs Hk. rewrite <- Hgrid in Hs. rewrite rect_sz in Hk by exact Hs. assert (k = 0%nat) by lia. subst k.
      rewrite rect_wt by exact Hs. lra.
    - intros i p Hi Hp. rewrite HE by auto. apply sumR_map_ext. intros s Hs. f_equal.
      apply rect_listed; auto. rewrite Hgrid. apply (in_block_lt subs i); auto. lia.
  Qed.
End RectMapper.

(* ------------------------------------------------------------------ E. the unique (sparse) encoding *)
Lemma nth_repeat_any {A} (x : A) n k : nth k (repeat x n) x = x.
Proof. revert k; induction n as [|n IH]; intros [|k]; cbn; auto. Qed.
Lemma maxN_fold l : forall a, (a <= fold_left Nat.max l a)%nat /\ forall x, In x l -> (x <= fold_left Nat.max l a)%nat.
Proof.
  induction l as [|y l IH]; intros a; cbn [fold_left]; [split; [lia | intros x []]|].
  destruct (IH (Nat.max a y)) as [A B]. split; [lia|]. intros x [<-|Hx]; [lia | auto].
Qed.
Lemma maxN_ge l x : In x l -> (x <= maxN l)%nat.
Proof. apply maxN_fold. Qed.
Lemma nth_le_maxN l k : (nth k l 0 <= maxN l)%nat.
Proof.
  destruct (lt_dec k (length l)) as [H|H]; [apply maxN_ge, nth_In; exact H|].
  rewrite nth_overflow by lia. lia.
Qed.

Section UniqueRow.
  Variables (P width : nat) (frac : R).
  Notation ust := (@ustate ROps).
  Definition pc (st : ust) (j : nat) : Z := nth j (pix_check st) (-1)%Z.
  Definition uk (st : ust) (k : nat) : Z := nth k (urow st) (-1)%Z.
  Definition wk (st : ust) (k : nat) : R := nth k (wrow st) 0.
  Definition wof (st : ust) (p : nat) : R := if (pc st p >? -1)%Z then wk st (Z.to_nat (pc st p)) else 0.
  Definition done_sum (done : list (Z * R)) (p : nat) : R :=
    sumR (map (fun e => if Z.eqb (fst e) (Z.of_nat p) then frac * snd e else 0) done).

  Record inv (st : ust) (done : list (Z * R)) : Prop := {
    i_len_pc : length (pix_check st) = P;
    i_len_u : length (urow st) = width;
    i_len_w : length (wrow st) = width;
    i_size : (psize st <= length done)%nat;
    i_pc : forall j, (j < P)%nat -> pc st j = (-1)%Z \/
             ((0 <= pc st j < Z.of_nat (psize st))%Z /\ uk st (Z.to_nat (pc st j)) = Z.of_nat j);
    i_u : forall k, (k < psize st)%nat -> (0 <= uk st k < Z.of_nat P)%Z /\ pc st (Z.to_nat (uk st k)) = Z.of_nat k;
    i_pad : forall k, (psize st <= k)%nat -> uk st k = (-1)%Z /\ wk st k = 0;
    i_w : forall p, (p < P)%nat -> wof st p = done_sum done p }.

  Lemma done_sum_app done e p : done_sum (done ++ [e]) p =
    done_sum done p + (if Z.eqb (fst e) (Z.of_nat p) then frac * snd e else 0).
  Proof. unfold done_sum. rewrite map_app, sumR_app. cbn. lra. Qed.

  Lemma inv_init : inv {| pix_check := repeat (-1)%Z P; urow := repeat (-1)%Z width; wrow := @zeros ROps width; psize := 0 |} [].
  Proof.
    constructor; cbn [pix_check urow wrow psize]; try apply repeat_length; auto.
    - intros j _. left. unfold pc. cbn [pix_check]. apply nth_repeat_any.
    - intros k Hk. lia.
    - intros k _. unfold uk, wk. cbn [urow wrow]. split; [apply nth_repeat_any | apply nth_zeros_R].
    - intros p _. unfold wof, pc. cbn [pix_check]. rewrite nth_repeat_any. reflexivity.
  Qed.

  Lemma ustep_inv st done pix w : inv st done -> (0 <= pix < Z.of_nat P)%Z -> (length done < width)%nat ->
    exists st', @ustep ROps frac P (Ok st) (pix, w) = Ok st' /\ inv st' (done ++ [(pix, w)]).
  Proof.
    intros [L1 L2 L3 Sz Ipc Iu Ipad Iw] Hpix Hlen.
    unfold ustep. cbn [fst snd]. rewrite np_index_in_range by exact Hpix.
    set (j := Z.to_nat pix). assert (Hj : (j < P)%nat) by (unfold j; lia).
    assert (Ej : Z.of_nat j = pix) by (unfold j; lia).
    change (nth j (pix_check st) (-1)%Z) with (pc st j).
    destruct (Z.gtb_spec (pc st j) (-1)) as [Hc|Hc].
    - (* already seen: accumulate *)
      destruct (Ipc j Hj) as [E|[Hr Hu]]; [lia|].
      set (c := Z.to_nat (pc st j)) in *. assert (Hcw : (c < width)%nat) by (unfold c; lia).
      eexists. split; [reflexivity|].
      constructor; cbn [pix_check urow wrow psize]; auto.
      + rewrite (@upd_add_length ROps). exact L3.
      + rewrite app_length. cbn. lia.
      + intros k Hk. destruct (Ipad k Hk) as [A B]. split; [exact A|].
        unfold wk in *. cbn [wrow]. cbn [T ROps] in *. rewrite nth_upd_add by nlia. rewrite B.
        destruct (Nat.eqb_spec c k); [lia | lra].
      + intros p Hp. rewrite done_sum_app. cbn [fst snd]. rewrite <- Iw by exact Hp.
        unfold wof, wk, pc in *. cbn [pix_check wrow]. cbn [T ROps] in *.
        destruct (Z.gtb_spec (nth p (pix_check st) (-1)%Z) (-1)) as [Hcp|Hcp].
        * rewrite nth_upd_add by nlia.
          destruct (Ipc p Hp) as [E|[Hr' Hu']]; [unfold pc in E; lia|]. unfold pc, uk in *.
          destruct (Nat.eqb_spec c (Z.to_nat (nth p (pix_check st) (-1)%Z))) as [Q|Q].
          -- assert (p = j). { rewrite <- Q in Hu'. rewrite Hu in Hu'. lia. }
             subst p. rewrite Ej, Z.eqb_refl. cbn [mul ROps]. lra.
          -- destruct (Z.eqb_spec pix (Z.of_nat p)) as [Q'|Q']; [|lra].
             exfalso. apply Q. assert (p = j) by lia. subst p. reflexivity.
        * destruct (Z.eqb_spec pix (Z.of_nat p)) as [Q'|Q']; [|lra].
          exfalso. assert (p = j) by lia. subst p. unfold pc in Hc. lia.
    - (* first time: new slot *)
      destruct (Ipc j Hj) as [E|[Hr Hu]]; [|lia].
      set (n := psize st) in *. assert (Hn : (n < width)%nat) by lia.
      eexists. split; [reflexivity|].
      constructor; cbn [pix_check urow wrow psize]; auto.
      + rewrite upd_set_length. exact L1.
      + rewrite upd_set_length. exact L2.
      + rewrite (@upd_add_length ROps). exact L3.
      + rewrite app_length. cbn. lia.
      + intros j' Hj'. unfold pc, uk. cbn [pix_check urow]. rewrite nth_upd_set by lia.
        destruct (Nat.eqb_spec j j') as [Q|Q].
        * subst j'. right. split; [lia|]. rewrite Nat2Z.id. rewrite nth_upd_set by lia. rewrite Nat.eqb_refl. lia.
        * destruct (Ipc j' Hj') as [E'|[Hr' Hu']]; [left; exact E'|]. right. split; [unfold pc in *; lia|].
          unfold pc, uk in *. rewrite nth_upd_set by lia.
          destruct (Nat.eqb_spec n (Z.to_nat (nth j' (pix_check st) (-1)%Z))); [lia | exact Hu'].
      + intros k Hk. unfold pc, uk. cbn [pix_check urow]. rewrite (nth_upd_set (urow st)) by lia.
        destruct (Nat.eqb_spec n k) as [Q|Q].
        * subst k. split; [lia|]. fold j. rewrite nth_upd_set by lia. rewrite Nat.eqb_refl. reflexivity.
        * destruct (Iu k ltac:(lia)) as [A B]. unfold uk, pc in A, B. split; [exact A|].
          rewrite nth_upd_set by lia.
          destruct (Nat.eqb_spec j (Z.to_nat (nth k (urow st) (-1)%Z))) as [Q'|Q']; [|exact B].
          exfalso. rewrite <- Q' in B. unfold pc in E. lia.
      + intros k Hk. destruct (Ipad k ltac:(lia)) as [A B]. unfold uk, wk in *. cbn [urow wrow]. cbn [T ROps] in *.
        rewrite nth_upd_set by lia. rewrite nth_upd_add by nlia.
        destruct (Nat.eqb_spec n k); [lia|]. split; [exact A | lra].
      + intros p Hp. rewrite done_sum_app. cbn [fst snd]. rewrite <- Iw by exact Hp.
        unfold wof, wk, pc in *. cbn [pix_check wrow]. cbn [T ROps] in *. rewrite nth_upd_set by lia.
        destruct (Nat.eqb_spec j p) as [Q|Q].
        * subst p. rewrite Ej, Z.eqb_refl.
          destruct (Z.gtb_spec (Z.of_nat n) (-1)); [|lia]. rewrite Nat2Z.id, nth_upd_add by nlia. rewrite Nat.eqb_refl.
          destruct (Ipad n ltac:(lia)) as [_ B]. unfold wk in B. rewrite B.
          destruct (Z.gtb_spec (nth j (pix_check st) (-1)%Z) (-1)); [lia|]. cbn [mul ROps]. lra.
        * destruct (Z.eqb_spec pix (Z.of_nat p)) as [Q'|Q']; [exfalso; lia|].
          destruct (Z.gtb_spec (nth p (pix_check st) (-1)%Z) (-1)) as [Hcp|Hcp]; [|lra].
          rewrite nth_upd_add by nlia.
          destruct (Ipc p Hp) as [E'|[Hr' Hu']]; [unfold pc in E'; lia|]. unfold pc in Hr'.
          destruct (Nat.eqb_spec n (Z.to_nat (nth p (pix_check st) (-1)%Z))); [lia | lra].
  Qed.

  Lemma ufold_inv es : forall st done, inv st done -> Forall (fun e => (0 <= fst e < Z.of_nat P)%Z) es ->
    (length done + length es <= width)%nat ->
    exists st', fold_left (@ustep ROps frac P) es (Ok st) = Ok st' /\ inv st' (done ++ es).
  Proof.
    induction es as [|[pix w] es IH]; intros st done HI HF HL.
    - exists st. rewrite app_nil_r. auto.
    - inversion HF as [|? ? Hp HF']; subst. cbn [fst] in Hp. cbn [length] in HL.
      destruct (ustep_inv st done pix w HI Hp ltac:(lia)) as [st1 [E1 I1]].
      destruct (IH st1 (done ++ [(pix, w)]) I1 HF') as [st2 [E2 I2]]; [rewrite app_length; cbn [length]; nlia|].
      exists st2. cbn [fold_left]. rewrite E1, E2. rewrite <- app_assoc in I2. auto.
  Qed.

  (* what the invariant says about the finished row *)
  Lemma inv_row_sum st done p : inv st done -> (p < P)%nat ->
    sumR (map (fun k => if Z.eqb (uk st k) (Z.of_nat p) then wk st k else 0) (seq 0 (psize st))) = done_sum done p.
  Proof.
    intros [L1 L2 L3 Sz Ipc Iu Ipad Iw] Hp. rewrite <- Iw by exact Hp. unfold wof.
    destruct (Z.gtb_spec (pc st p) (-1)) as [Hc|Hc].
    - destruct (Ipc p Hp) as [E|[Hr Hu]]; [lia|]. set (c := Z.to_nat (pc st p)) in *.
      rewrite <- (sumR_seq_pick (psize st) c (wk st c)) by (unfold c; lia).
      apply sumR_map_ext. intros k Hk. apply in_seq in Hk.
      destruct (Z.eqb_spec (uk st k) (Z.of_nat p)) as [Q|Q].
      + destruct (Iu k ltac:(lia)) as [_ B]. rewrite Q, Nat2Z.id in B.
        assert (c = k) by (unfold c; lia). subst k. rewrite Nat.eqb_refl. reflexivity.
      + destruct (Nat.eqb_spec c k) as [Q'|Q']; [|reflexivity]. subst k. contradiction.
    - apply sumR_map_zero. intros k Hk. apply in_seq in Hk.
      destruct (Z.eqb_spec (uk st k) (Z.of_nat p)) as [Q|Q]; [|reflexivity].
      destruct (Iu k ltac:(lia)) as [_ B]. rewrite Q, Nat2Z.id in B. lia.
  Qed.
  Lemma inv_row_inj st done k k' : inv st done -> (k < psize st)%nat -> (k' < psize st)%nat -> uk st k = uk st k' -> k = k'.
  Proof.
    intros [L1 L2 L3 Sz Ipc Iu Ipad Iw] Hk Hk' E.
    destruct (Iu k Hk) as [_ B]. destruct (Iu k' Hk') as [_ B']. rewrite E in B. lia.
  Qed.
End UniqueRow.

Lemma offset_S subs i : (i < length subs)%nat -> offset subs (S i) = (offset subs i + sq_n (nth i subs 0))%nat.
Proof.
  revert i; induction subs as [|s0 t IH]; intros i Hi; cbn [length] in Hi; [lia|].
  destruct i as [|i]; [cbn [offset nth]; destruct t; cbn [offset]; lia|].
  cbn [offset nth]. rewrite IH by lia. cbn [offset]. lia.
Qed.

Lemma nth_firstn_lt {A} (l : list A) n k d : (k < n)%nat -> nth k (firstn n l) d = nth k l d.
Proof. revert n k; induction l as [|a l IH]; intros [|n] [|k] H; cbn; auto; try lia. apply IH. lia. Qed.
Lemma offset_0 subs : offset subs 0 = 0%nat.
Proof. destruct subs; reflexivity. Qed.

Section UniqueAll.
  Variables (m : mask) (subs : list nat) (P : nat) (mp : list (list Z)) (sz : list nat) (wt : Rmat).
  Hypothesis HM : mapper_ok m subs P mp sz.
  Let width := (maxN sz * sq_n (maxN subs))%nat.

  Lemma sub_entries_valid start n : (start + n <= total_sub subs)%nat ->
    Forall (fun e => (0 <= fst e < Z.of_nat P)%Z) (@sub_entries ROps mp sz wt start n).
  Proof.
    intros H. apply Forall_forall. intros e He. unfold sub_entries in He.
    apply in_flat_map in He. destruct He as [s [Hs He]]. apply in_seq in Hs.
    apply in_map_iff in He. destruct He as [k [<- Hk]]. apply in_seq in Hk. cbn [fst].
    apply (mo_idx _ _ _ _ _ HM); lia.
  Qed.
  Lemma sub_entries_length start n : (length (@sub_entries ROps mp sz wt start n) <= n * maxN sz)%nat.
  Proof.
    unfold sub_entries. revert start; induction n as [|n IH]; intros start; cbn [seq flat_map length]; [lia|].
    rewrite app_length, map_length, seq_length. specialize (IH (S start)). pose proof (nth_le_maxN sz start). lia.
  Qed.
  Lemma sub_entries_sum frac start n p :
    done_sum frac (@sub_entries ROps mp sz wt start n) p =
    sumR (map (fun s => frac * listed_weight mp sz wt s p) (seq start n)).
  Proof.
    unfold done_sum, sub_entries. rewrite sumR_flat_map. apply sumR_map_ext. intros s _.
    rewrite map_map. unfold listed_weight. rewrite <- sumR_map_scal. apply sumR_map_ext. intros k _. cbn [fst snd]. change (@zero ROps) with 0.
    destruct (Z.eqb _ _); nlra.
  Qed.

  (* one finished row of the sparse encoding, for data pixel i *)
  Definition row_ok (i : nat) (row : list Z * list R * nat) : Prop :=
    let '(u, w, n) := row in
    (n <= width)%nat /\ length u = width /\ length w = width
    /\ (forall k k', (k < n)%nat -> (k' < n)%nat -> nth k u (-1)%Z = nth k' u (-1)%Z -> k = k')
    /\ (forall k, (k < n)%nat -> (0 <= nth k u (-1) < Z.of_nat P)%Z)
    /\ (forall k, (n <= k)%nat -> nth k u (-1)%Z = (-1)%Z /\ nth k w 0 = 0)
    /\ (forall p, (p < P)%nat ->
          sumR (map (fun k => if Z.eqb (nth k u (-1)%Z) (Z.of_nat p) then nth k w 0 else 0) (seq 0 n))
          = sumR (map (fun s => 1 / INR (sq_n (nth i subs 0%nat)) * listed_weight mp sz wt s p) (block subs i))).

  Lemma uq_rows_ok : forall suf pre, subs = pre ++ suf ->
    exists rows, @uq_rows ROps mp sz wt P width suf (offset subs (length pre)) = Ok rows /\ length rows = length suf /\
                 forall i', (i' < length suf)%nat -> row_ok (length pre + i') (nth i' rows ([], [], 0%nat)).
  Proof.
    induction suf as [|sub suf IH]; intros pre Hsplit.
    - exists []. cbn. repeat split; auto. intros i' Hi'. lia.
    - cbn [uq_rows].
      assert (Hi : (length pre < length subs)%nat) by (rewrite Hsplit, app_length; cbn; lia).
      assert (Hsub : nth (length pre) subs 0%nat = sub) by (rewrite Hsplit, app_nth2, Nat.sub_diag by lia; reflexivity).
      assert (Hoff : (offset subs (length pre) + sq_n sub <= total_sub subs)%nat).
      { rewrite <- Hsub. apply (offset_mono subs (length pre) (length subs)); lia. }
      set (frac := div ROps one (@ofNat ROps (sq_n sub))).
      set (es := @sub_entries ROps mp sz wt (offset subs (length pre)) (sq_n sub)).
      assert (Hw : (length es <= width)%nat).
      { unfold es, width. pose proof (sub_entries_length (offset subs (length pre)) (sq_n sub)).
        assert (sub <= maxN subs)%nat by (rewrite <- Hsub; apply nth_le_maxN).
        assert (sq_n sub <= sq_n (maxN subs))%nat by (unfold sq_n; nia). nia. }
      destruct (ufold_inv P width frac es _ [] (inv_init P width frac)) as [st [Est Ist]].
      { apply sub_entries_valid. exact Hoff. }
      { cbn [length]. lia. }
      rewrite Est. cbn [app] in Ist.
      destruct (IH (pre ++ [sub])) as [rows [Er [Lr Hr]]]; [rewrite <- app_assoc; exact Hsplit|].
      rewrite app_length in Er. cbn [length] in Er. rewrite Nat.add_1_r, offset_S, Hsub in Er by exact Hi.
      rewrite Er. eexists. split; [reflexivity|]. split; [cbn [length]; lia|].
      intros [|i'] Hi'.
      + cbn [nth]. rewrite Nat.add_0_r. unfold row_ok.
        pose proof Ist as [L1 L2 L3 Sz Ipc Iu Ipad Iw].
        split; [nlia|]. split; [exact L2|]. split; [exact L3|]. split.
        { intros k k' Hk Hk' E. apply (inv_row_inj P width frac st es k k' Ist Hk Hk' E). }
        split. { intros k Hk. apply Iu. exact Hk. }
        split. { intros k Hk. apply Ipad. exact Hk. }
        intros p Hp. pose proof (inv_row_sum P width frac st es p Ist Hp) as E. unfold uk, wk in E.
        cbn [T ROps] in *. rewrite E. unfold es. rewrite sub_entries_sum. unfold block. rewrite Hsub.
        apply sumR_map_ext. intros s _. f_equal. unfold frac, one, ofNat. cbn [div ofZ ROps].
        rewrite <- INR_IZR_INZ. reflexivity.
      + cbn [nth]. cbn [length] in Hi'. specialize (Hr i' ltac:(lia)).
        rewrite app_length in Hr. cbn [length] in Hr. replace (length pre + S i')%nat with (length pre + 1 + i')%nat by lia.
        exact Hr.
  Qed.

  (* the sparse triple encodes exactly the dense matrix *)
  Theorem unique_encodes_dense M :
    @mapping_matrix ROps mp sz wt P (count_unmasked m) (slim_for_sub m subs) (@sub_fractions ROps subs) = Ok M ->
    exists rows, @unique_from ROps mp sz wt P subs = Ok rows /\ length rows = count_unmasked m /\
      forall i, (i < count_unmasked m)%nat ->
        let '(u, w, n) := nth i rows ([], [], 0%nat) in
        (n <= length u)%nat /\ length w = length u
        /\ NoDup (firstn n u)
        /\ (forall k, (k < n)%nat -> (0 <= nth k u (-1) < Z.of_nat P)%Z)
        /\ (forall k, (n <= k)%nat -> nth k u (-1)%Z = (-1)%Z /\ nth k w 0 = 0)
        /\ (forall p, (p < P)%nat ->
              sumR (map (fun k => if Z.eqb (nth k u (-1)%Z) (Z.of_nat p) then nth k w 0 else 0) (seq 0 n)) = mgetR M i p).
  Proof.
    intros EM. destruct (uq_rows_ok subs [] eq_refl) as [rows [Er [Lr Hr]]]. cbn [length offset] in Er.
    rewrite offset_0 in Er.
    exists rows. split; [exact Er|]. pose proof (mo_len _ _ _ _ _ HM) as HL. split; [lia|].
    intros i Hi. specialize (Hr i ltac:(lia)). cbn [length plus] in Hr.
    destruct (nth i rows ([], [], 0%nat)) as [[u w] n]. unfold row_ok in Hr.
    destruct Hr as [A [B [C [D [E [F G]]]]]].
    split; [nlia|]. split; [nlia|]. split.
    { apply (NoDup_nth _ (-1)%Z). intros k k' Hk Hk' Heq. rewrite firstn_length in Hk, Hk'.
      rewrite !nth_firstn_lt in Heq by lia. apply D; auto; lia. }
    split; [exact E|]. split; [exact F|].
    intros p Hp. rewrite G by exact Hp.
    destruct (entry_block_formula m subs P mp sz wt HM) as [M' [E' [_ HE]]]. rewrite EM in E'. injection E' as <-.
    symmetry. apply HE; auto.
  Qed.
End UniqueAll.

(* ------------------------------------------------------------------ H. Delaunay interpolation weights *)
Lemma absT_R x : @absT ROps x = Rabs x.
Proof.
  unfold absT. runfold. unfold Rabs. destruct (Rltb x 0) eqn:E; rbool; destruct (Rcase_abs x); lra.
Qed.
Notation crossR := (@cross ROps).
Lemma tri_area_cross (a b c : Rpt) : @tri_area ROps a b c = Rabs (crossR a b c) / 2.
Proof.
  unfold tri_area, cross. rewrite absT_R. cbv zeta. runfold.
  match goal with |- 1 / 2 * Rabs ?x = Rabs ?y / 2 => replace x with y by ring end. lra.
Qed.
Lemma cross_cyc (a b c : Rpt) : crossR a b c = crossR c a b.
Proof. unfold cross. runfold. ring. Qed.
Lemma cross_swap (a b c : Rpt) : crossR a c b = - crossR a b c.
Proof. unfold cross. runfold. ring. Qed.
Lemma cross_sum (v0 v1 v2 p : Rpt) : crossR p v1 v2 + crossR v0 p v2 + crossR v0 v1 p = crossR v0 v1 v2.
Proof. unfold cross. runfold. ring. Qed.

(* the three weights the code computes for a point p and a triangle (v0, v1, v2) *)
Definition area_weights (v0 v1 v2 p : Rpt) : R * R * R :=
  let a0 := @tri_area ROps v1 v2 p in let a1 := @tri_area ROps v0 v2 p in let a2 := @tri_area ROps v0 v1 p in
  (a0 / (a0 + a1 + a2), a1 / (a0 + a1 + a2), a2 / (a0 + a1 + a2)).

Lemma areas_as_cross (v0 v1 v2 p : Rpt) :
  @tri_area ROps v1 v2 p = Rabs (crossR p v1 v2) / 2 /\ @tri_area ROps v0 v2 p = Rabs (crossR v0 p v2) / 2
  /\ @tri_area ROps v0 v1 p = Rabs (crossR v0 v1 p) / 2.
Proof.
  rewrite !tri_area_cross. repeat split.
  - rewrite (cross_cyc v1 v2 p). reflexivity.
  - rewrite (cross_swap v0 v2 p), Rabs_Ropp. reflexivity.
Qed.

(* any point, non-degenerate triangle: the weights are non-negative and sum to one *)
Theorem area_weights_sum (v0 v1 v2 p : Rpt) : crossR v0 v1 v2 <> 0 ->
  let '(w0, w1, w2) := area_weights v0 v1 v2 p in 0 <= w0 /\ 0 <= w1 /\ 0 <= w2 /\ w0 + w1 + w2 = 1.
Proof.
  intros Hd. unfold area_weights. destruct (areas_as_cross v0 v1 v2 p) as [-> [-> ->]].
  pose proof (cross_sum v0 v1 v2 p) as Hs.
  set (s0 := crossR p v1 v2) in *. set (s1 := crossR v0 p v2) in *. set (s2 := crossR v0 v1 p) in *.
  pose proof (Rabs_pos s0). pose proof (Rabs_pos s1). pose proof (Rabs_pos s2).
  assert (Hn : 0 < Rabs s0 / 2 + Rabs s1 / 2 + Rabs s2 / 2).
  { pose proof (Rabs_triang (s0 + s1) s2). pose proof (Rabs_triang s0 s1).
    pose proof (Rabs_pos_lt _ Hd). rewrite <- Hs in H4. lra. }
  repeat split; try (apply Rmult_le_pos; [lra | apply Rlt_le, Rinv_0_lt_compat; lra]).
  field. lra.
Qed.

(* point inside the (closed) triangle: the weights are the barycentric coordinates *)
Theorem area_weights_barycentric (v0 v1 v2 p : Rpt) : crossR v0 v1 v2 <> 0 ->
  @in_triangle ROps v0 v1 v2 p = true -> area_weights v0 v1 v2 p = @bary ROps v0 v1 v2 p.
Proof.
  intros Hd Hin. unfold area_weights, bary. destruct (areas_as_cross v0 v1 v2 p) as [-> [-> ->]]. runfold.
  pose proof (cross_sum v0 v1 v2 p) as Hs.
  unfold in_triangle in Hin. revert Hin. runfold.
  set (s0 := crossR p v1 v2) in *. set (s1 := crossR v0 p v2) in *. set (s2 := crossR v0 v1 p) in *.
  set (d := crossR v0 v1 v2) in *. clearbody s0 s1 s2 d. cbn [T ROps] in *. subst d.
  rewrite orb_true_iff, !andb_true_iff, !Rleb_true. intros [[[A B] C]|[[A B] C]].
  - rewrite !Rabs_right by lra. f_equal; [f_equal|]; field; lra.
  - rewrite !Rabs_left1 by lra. f_equal; [f_equal|]; field; lra.
Qed.
(* what barycentric coordinates are: they sum to one and reproduce the point *)
Theorem bary_spec (v0 v1 v2 p : Rpt) : crossR v0 v1 v2 <> 0 ->
  let '(b0, b1, b2) := @bary ROps v0 v1 v2 p in
  b0 + b1 + b2 = 1 /\ b0 * fst v0 + b1 * fst v1 + b2 * fst v2 = fst p /\ b0 * snd v0 + b1 * snd v1 + b2 * snd v2 = snd p.
Proof.
  intros Hd. unfold bary. runfold. unfold cross in *. revert Hd. runfold. intros Hd.
  repeat split; field; exact Hd.
Qed.
Theorem in_triangle_bary_nonneg (v0 v1 v2 p : Rpt) : crossR v0 v1 v2 <> 0 ->
  (@in_triangle ROps v0 v1 v2 p = true <->
   let '(b0, b1, b2) := @bary ROps v0 v1 v2 p in 0 <= b0 /\ 0 <= b1 /\ 0 <= b2).
Proof.
  intros Hd. unfold in_triangle, bary. runfold. pose proof (cross_sum v0 v1 v2 p) as Hs.
  set (s0 := crossR p v1 v2) in *. set (s1 := crossR v0 p v2) in *. set (s2 := crossR v0 v1 p) in *.
  set (d := crossR v0 v1 v2) in *.
  rewrite orb_true_iff, !andb_true_iff, !Rleb_true.
  assert (Q : forall s, (0 <= s / d <-> (0 < d /\ 0 <= s) \/ (d < 0 /\ s <= 0))).
  { intros s. split.
    - intros H. destruct (Rtotal_order d 0) as [L|[E|G]]; [right|contradiction|left]; split; auto.
      + apply (Rmult_le_compat_neg_l d) in H; [|lra]. replace (d * (s / d)) with s in H by (field; lra). lra.
      + apply (Rmult_le_compat_l d) in H; [|lra]. replace (d * (s / d)) with s in H by (field; lra). lra.
    - intros [[A B]|[A B]].
      + apply Rmult_le_pos; [lra|]. apply Rlt_le, Rinv_0_lt_compat; lra.
      + replace (s / d) with ((- s) * / (- d)) by (field; lra). apply Rmult_le_pos; [lra|]. apply Rlt_le, Rinv_0_lt_compat; lra. }
  rewrite !Q. split.
  - intros [[[A B] C]|[[A B] C]].
    + assert (0 < d) by (destruct (Rtotal_order d 0) as [L|[E|G]]; lra). lra.
    + assert (d < 0) by (destruct (Rtotal_order d 0) as [L|[E|G]]; lra). lra.
  - intros [A [B C]]. destruct (Rtotal_order d 0) as [L|[E|G]]; [right|contradiction|left]; lra.
Qed.

(* ---- np.argmin: first index of the minimum ---- *)
Lemma argmin_from_spec (l : list R) : forall i best bv, (best < i)%nat ->
  let r := @argmin_from ROps l i best bv in
  ((r = best /\ Forall (fun v => bv <= v) l) \/
   ((i <= r < i + length l)%nat /\ nth (r - i) l 0 < bv /\ Forall (fun v => nth (r - i) l 0 <= v) l
    /\ forall k, (k < r - i)%nat -> nth (r - i) l 0 < nth k l 0)).
Proof.
  induction l as [|v l IH]; intros i best bv Hb; cbn [argmin_from].
  - left. split; auto.
  - cbn [ltb ROps]. destruct (Rltb v bv) eqn:E; rbool.
    + destruct (IH (S i) i v ltac:(lia)) as [[Hr HF]|[Hr [Hlt [HF Hk]]]].
      * right. rewrite Hr. replace (i - i)%nat with 0%nat by lia. cbn [nth length]. split; [lia|]. split; [exact E|].
        split; [constructor; [lra | exact HF]|]. intros k Hk. lia.
      * right. set (r := @argmin_from ROps l (S i) i v) in *. cbn [length].
        replace (r - i)%nat with (S (r - S i)) by lia. cbn [nth]. split; [lia|]. split; [lra|].
        split; [constructor; [lra | exact HF]|].
        intros [|k] Hk'; cbn [nth]; [exact Hlt | apply Hk; lia].
    + destruct (IH (S i) best bv ltac:(lia)) as [[Hr HF]|[Hr [Hlt [HF Hk]]]].
      * left. split; [exact Hr|]. constructor; [lra | exact HF].
      * right. set (r := @argmin_from ROps l (S i) best bv) in *. cbn [length].
        replace (r - i)%nat with (S (r - S i)) by lia. cbn [nth]. split; [lia|]. split; [exact Hlt|].
        split; [constructor; [lra | exact HF]|].
        intros [|k] Hk'; cbn [nth]; [lra | apply Hk; lia].
Qed.
Theorem argmin_spec (l : list R) : l <> [] ->
  let r := @argmin ROps l in
  (r < length l)%nat /\ (forall k, (k < length l)%nat -> nth r l 0 <= nth k l 0) /\ (forall k, (k < r)%nat -> nth r l 0 < nth k l 0).
Proof.
  destruct l as [|v l]; [congruence|]. intros _. cbn [argmin].
  destruct (argmin_from_spec l 1 0 v ltac:(lia)) as [[Hr HF]|[Hr [Hlt [HF Hk]]]].
  - cbn zeta. rewrite Hr. cbn [nth length]. split; [lia|]. split; [|intros k Hk; lia].
    intros [|k] Hk; cbn [nth]; [lra|]. rewrite Forall_forall in HF. apply HF, nth_In. cbn [length] in Hk. lia.
  - cbn zeta. set (r := @argmin_from ROps l 1 0 v) in *. cbn [length].
    destruct r as [|r]; [lia|]. replace (S r - 1)%nat with r in * by lia. cbn [nth]. split; [lia|]. split.
    + intros [|k] Hk'; cbn [nth]; [lra|]. rewrite Forall_forall in HF. apply HF, nth_In. lia.
    + intros [|k] Hk'; cbn [nth]; [exact Hlt | apply Hk; lia].
Qed.

(* ------------------------------------------------------------------ I. the Delaunay mapper, end to end *)
Section DelMapper.
  Variables (m : mask) (subs : list nat) (grid points : list Rpt) (simplices : list (list Z)) (simplex_for : list Z).
  Let P := length points.
  Let pt0 : Rpt := (0, 0).
  Definition vtxR (row : list Z) (k : nat) : Rpt := @vertex ROps points row k.
  (* the oracle's contract as far as the matrix needs it *)
  Hypothesis Hlen : length subs = count_unmasked m.
  Hypothesis Hsub : forall i, (i < length subs)%nat -> (1 <= nth i subs 0)%nat.
  Hypothesis Hgrid : length grid = total_sub subs.
  Hypothesis Hfor : length simplex_for = length grid.
  Hypothesis Hpts : points <> [].
  Hypothesis Hsimp : forall row, In row simplices ->
    exists a b c, row = [a; b; c] /\ (0 <= a < Z.of_nat P)%Z /\ (0 <= b < Z.of_nat P)%Z /\ (0 <= c < Z.of_nat P)%Z
                  /\ crossR (vtxR row 0) (vtxR row 1) (vtxR row 2) <> 0.
  Hypothesis Hidx : forall t, In t simplex_for -> t = (-1)%Z \/ (0 <= t < Z.of_nat (length simplices))%Z.

  Let mp := fst (@del_mappings ROps grid simplex_for simplices points).
  Let sz := snd (@del_mappings ROps grid simplex_for simplices points).
  Let wt := @del_weights ROps grid points mp.
  Definition nearest (q : Rpt) : nat := @argmin ROps (map (fun v => @sqdist ROps v q) points).

  (* the weight the property claims for sub-pixel s and source pixel p *)
  Definition del_w (s p : nat) : R :=
    let q := nth s grid pt0 in let t := nth s simplex_for (-1)%Z in
    if Z.eqb t (-1) then (if Nat.eqb (nearest q) p then 1 else 0)
    else let row := nth (Z.to_nat t) simplices [] in
         let '(w0, w1, w2) := area_weights (vtxR row 0) (vtxR row 1) (vtxR row 2) q in
         (if Z.eqb (nthZ row 0) (Z.of_nat p) then w0 else 0) + (if Z.eqb (nthZ row 1) (Z.of_nat p) then w1 else 0)
         + (if Z.eqb (nthZ row 2) (Z.of_nat p) then w2 else 0).

  Lemma nearest_lt q : (nearest q < P)%nat.
  Proof.
    unfold nearest, P. destruct (argmin_spec (map (fun v => @sqdist ROps v q) points)) as [A _].
    - destruct points; [congruence | discriminate].
    - rewrite map_length in A. exact A.
  Qed.

  Lemma del_mp_row s : (s < length grid)%nat ->
    nth s mp [] = (if Z.eqb (nth s simplex_for (-1)%Z) (-1)
                   then [Z.of_nat (nearest (nth s grid pt0)); (-1)%Z; (-1)%Z]
                   else nth (Z.to_nat (nth s simplex_for (-1)%Z)) simplices [(-1)%Z; (-1)%Z; (-1)%Z]).
  Proof.
    intros Hs. unfold mp, del_mappings. cbn [fst].
    rewrite (nth_map_lt _ _ _ _ (pt0, (-1)%Z)) by (rewrite combine_length; nlia).
    rewrite combine_nth by nlia. cbn [fst snd]. reflexivity.
  Qed.
  Lemma del_sz s : (s < length grid)%nat ->
    nth s sz 0%nat = length (filter (fun v => (0 <=? v)%Z) (nth s mp [])).
  Proof.
    intros Hs. unfold sz, mp, del_mappings. cbn [fst snd].
    rewrite (nth_map_lt _ _ _ _ []) by (rewrite map_length, combine_length; nlia). reflexivity.
  Qed.
  Lemma del_wt s : (s < length grid)%nat -> nth s wt [] = @del_weight_row ROps points (nth s grid pt0) (nth s mp []).
  Proof.
    intros Hs. unfold wt, del_weights.
    assert (Lmp : length mp = length grid).
    { unfold mp, del_mappings. cbn [fst]. rewrite map_length, combine_length. nlia. }
    rewrite (nth_map_lt _ _ _ _ (pt0, [])) by (rewrite combine_length; nlia).
    rewrite combine_nth by nlia. reflexivity.
  Qed.

  (* the two shapes a row can take *)
  Lemma del_row_cases s : (s < length grid)%nat ->
    (nth s simplex_for (-1)%Z = (-1)%Z /\ nth s mp [] = [Z.of_nat (nearest (nth s grid pt0)); (-1)%Z; (-1)%Z]
     /\ nth s sz 0%nat = 1%nat /\ nth s wt [] = [1; 0; 0]) \/
    (nth s simplex_for (-1)%Z <> (-1)%Z /\ exists a b c, nth (Z.to_nat (nth s simplex_for (-1)%Z)) simplices [] = [a; b; c] /\
       nth s mp [] = [a; b; c] /\ (0 <= a < Z.of_nat P)%Z /\ (0 <= b < Z.of_nat P)%Z /\ (0 <= c < Z.of_nat P)%Z /\
       crossR (vtxR [a; b; c] 0) (vtxR [a; b; c] 1) (vtxR [a; b; c] 2) <> 0 /\
       nth s sz 0%nat = 3%nat /\
       nth s wt [] = (let '(w0, w1, w2) := area_weights (vtxR [a; b; c] 0) (vtxR [a; b; c] 1) (vtxR [a; b; c] 2) (nth s grid pt0) in [w0; w1; w2])).
  Proof.
    intros Hs. rewrite del_wt, del_sz by exact Hs. rewrite del_mp_row by exact Hs.
    destruct (Z.eqb_spec (nth s simplex_for (-1)%Z) (-1)) as [E|E].
    - left. split; [exact E|]. split; [reflexivity|]. split.
      + cbn [filter]. destruct (Z.leb_spec 0 (Z.of_nat (nearest (nth s grid pt0)))); [reflexivity | lia].
      + unfold del_weight_row. cbn [nthZ nth]. cbn. unfold one, zero. cbn. reflexivity.
    - right. split; [exact E|].
      destruct (Hidx (nth s simplex_for (-1)%Z)) as [Q|Q]; [apply nth_In; lia | contradiction |].
      set (t := Z.to_nat (nth s simplex_for (-1)%Z)) in *. assert (Ht : (t < length simplices)%nat) by (unfold t; lia).
      destruct (Hsimp (nth t simplices []) (nth_In _ _ Ht)) as [a [b [c [Er [Ha [Hb' [Hc Hd]]]]]]].
      exists a, b, c. rewrite (nth_indep simplices [(-1)%Z; (-1)%Z; (-1)%Z] [] Ht). rewrite Er in *.
      split; [reflexivity|]. split; [reflexivity|]. repeat (split; [assumption|]). split.
      + cbn [filter]. destruct (Z.leb_spec 0 a); [|lia]. destruct (Z.leb_spec 0 b); [|lia]. destruct (Z.leb_spec 0 c); [|lia]. reflexivity.
      + unfold del_weight_row. cbn [nthZ nth]. destruct (Z.eqb_spec b (-1)); [lia|]. cbn [negb].
        unfold area_weights, vtxR. cbv zeta. runfold. reflexivity.
  Qed.

  Lemma del_mapper_ok : mapper_ok m subs P mp sz.
  Proof.
    constructor; auto. intros s k Hs Hk. rewrite <- Hgrid in Hs.
    destruct (del_row_cases s Hs) as [[_ [Em [Es _]]]|[_ [a [b [c [_ [Em [Ha [Hb' [Hc [_ [Es _]]]]]]]]]]]]; rewrite Em; rewrite Es in Hk.
    - assert (k = 0%nat) by lia. subst k. cbn [nthZ nth]. pose proof (nearest_lt (nth s grid pt0)). lia.
    - destruct k as [|[|[|k]]]; cbn [nthZ nth]; auto; lia.
  Qed.

  Lemma del_listed s p : (s < length grid)%nat -> listed_weight mp sz wt s p = del_w s p.
  Proof.
    intros Hs. unfold listed_weight, del_w.
    destruct (del_row_cases s Hs) as [[E [Em [Es Ew]]]|[E [a [b [c [Er [Em [Ha [Hb' [Hc [Hd [Es Ew]]]]]]]]]]]]; cbn [T ROps] in *; rewrite Em, Es, Ew.
    - rewrite E, Z.eqb_refl. cbn [seq map sumR nthZ nth].
      destruct (Z.eqb_spec (Z.of_nat (nearest (nth s grid pt0))) (Z.of_nat p)); destruct (Nat.eqb_spec (nearest (nth s grid pt0)) p);
        try lra; exfalso; lia.
    - destruct (Z.eqb_spec (nth s simplex_for (-1)%Z) (-1)); [contradiction|]. rewrite Er.
      destruct (area_weights (vtxR [a; b; c] 0) (vtxR [a; b; c] 1) (vtxR [a; b; c] 2) (nth s grid pt0)) as [[w0 w1] w2].
      cbn [seq map sumR nthZ nth]. lra.
  Qed.

  Theorem del_mapper_matrix :
    exists M, @mapping_matrix ROps mp sz wt P (count_unmasked m) (slim_for_sub m subs) (@sub_fractions ROps subs) = Ok M
      /\ mat_shape (count_unmasked m) P M
      /\ (forall i, (i < count_unmasked m)%nat -> sumR (map (fun p => mgetR M i p) (seq 0 P)) = 1)
      /\ (forall i p, (i < count_unmasked m)%nat -> (p < P)%nat -> 0 <= mgetR M i p)
      /\ (forall i p, (i < count_unmasked m)%nat -> (p < P)%nat ->
            mgetR M i p = sumR (map (fun s => 1 / INR (sq_n (nth i subs 0%nat)) * del_w s p) (block subs i))).
  Proof.
    destruct (entry_block_formula m subs P mp sz wt del_mapper_ok) as [M [E [HS HE]]].
    exists M. split; [exact E|]. split; [exact HS|]. split; [|split].
    - apply (rows_sum_to_one m subs P mp sz wt M del_mapper_ok); auto.
      intros s Hs. rewrite <- Hgrid in Hs.
      destruct (del_row_cases s Hs) as [[_ [_ [Es Ew]]]|[_ [a [b [c [_ [_ [_ [_ [_ [Hd [Es Ew]]]]]]]]]]]]; cbn [T ROps] in *; rewrite Es, Ew.
      + cbn [seq map sumR nth]. lra.
      + pose proof (area_weights_sum _ _ _ (nth s grid pt0) Hd) as Hw.
        destruct (area_weights (vtxR [a; b; c] 0) (vtxR [a; b; c] 1) (vtxR [a; b; c] 2) (nth s grid pt0)) as [[w0 w1] w2].
        cbn [seq map sumR nth]. lra.
    - apply (rows_nonneg m subs P mp sz wt M del_mapper_ok); auto.
      intros s k Hs Hk. rewrite <- Hgrid in Hs.
      destruct (del_row_cases s Hs) as [[_ [_ [Es Ew]]]|[_ [a [b [c [_ [_ [_ [_ [_ [Hd [Es Ew]]]]]]]]]]]]; cbn [T ROps] in *; rewrite Ew; rewrite Es in Hk.
      + destruct k as [|k]; [cbn; lra | lia].
      + pose proof (area_weights_sum _ _ _ (nth s grid pt0) Hd) as Hw.
        destruct (area_weights (vtxR [a; b; c] 0) (vtxR [a; b; c] 1) (vtxR [a; b; c] 2) (nth s grid pt0)) as [[w0 w1] w2].
        destruct k as [|[|[|k]]]; cbn [nth]; try lra; lia.
    - intros i p Hi Hp. rewrite HE by auto. apply sumR_map_ext. intros s Hs. f_equal.
      apply del_listed. rewrite Hgrid. apply (in_block_lt subs i); auto. lia.
  Qed.

  (* outside the hull (the oracle reports -1): all the weight goes to the nearest vertex, the first one among ties *)
  Theorem outside_hull_nearest_vertex s : (s < length grid)%nat -> nth s simplex_for (-1)%Z = (-1)%Z ->
    let q := nth s grid pt0 in let j := nearest q in
    nth s mp [] = [Z.of_nat j; (-1)%Z; (-1)%Z] /\ nth s sz 0%nat = 1%nat /\ nth s wt [] = [1; 0; 0]
    /\ (j < P)%nat
    /\ (forall k, (k < P)%nat -> @sqdist ROps (nth j points pt0) q <= @sqdist ROps (nth k points pt0) q)
    /\ (forall k, (k < j)%nat -> @sqdist ROps (nth j points pt0) q < @sqdist ROps (nth k points pt0) q).
  Proof.
    intros Hs E. cbv zeta.
    destruct (del_row_cases s Hs) as [[_ [Em [Es Ew]]]|[E' _]]; [|contradiction].
    split; [exact Em|]. split; [exact Es|]. split; [exact Ew|]. split; [apply nearest_lt|].
    unfold nearest. destruct (argmin_spec (map (fun v => @sqdist ROps v (nth s grid pt0)) points)) as [A [B C]].
    { destruct points; [congruence | discriminate]. }
    rewrite map_length in A, B.
    set (j := @argmin ROps (map (fun v => @sqdist ROps v (nth s grid pt0)) points)) in *.
    assert (N : forall k, (k < P)%nat -> nth k (map (fun v => @sqdist ROps v (nth s grid pt0)) points) 0 = @sqdist ROps (nth k points pt0) (nth s grid pt0)).
    { intros k Hk. apply (nth_map_lt (fun v => @sqdist ROps v (nth s grid pt0)) points k 0 pt0). exact Hk. }
    split.
    - intros k Hk. rewrite <- (N j) by exact A. rewrite <- (N k) by exact Hk. apply B. exact Hk.
    - intros k Hk. rewrite <- (N j) by exact A. rewrite <- (N k) by (unfold P; nlia). apply C. exact Hk.
  Qed.
End DelMapper.

Local Open Scope Z_scope.
(* ------------------------------------------------------------------ J. rectangular neighbours = 4-adjacency *)
Lemma nth_upd_row_ne {A} (M : list A) i f a d : i <> a -> nth a (upd_row M i f) d = nth a M d.
Proof.
  revert i a; induction M as [|r M IH]; intros i a Hne.
  - destruct i; reflexivity.
  - destruct i as [|i], a as [|a]; cbn; auto; try congruence.
Qed.
Lemma in_rangeZ a b x : In x (rangeZ a b) <-> a <= x < b.
Proof.
  unfold rangeZ. rewrite in_map_iff. split.
  - intros [i [<- Hi]]. apply in_seq in Hi. lia.
  - intros H. exists (Z.to_nat (x - a)). split; [lia|]. apply in_seq. lia.
Qed.

Definition pad4 (l : list Z) : list Z := l ++ repeat (-1) (4 - length l).
Definition final_row (H W t : Z) : list Z * Z := (pad4 (adj4 H W t), Z.of_nat (length (adj4 H W t))).
Definition init_row : list Z * Z := ([-1; -1; -1; -1], 0).
Definition consistent (H W : Z) (w : nb_write) : Prop := 0 <= fst w < H * W /\ snd w = adj4 H W (fst w).

Lemma adj4_rc H W r c : 0 <= c < W ->
  adj4 H W (r * W + c) =
  (if 0 <? r then [r * W + c - W] else []) ++ (if 0 <? c then [r * W + c - 1] else [])
  ++ (if c <? W - 1 then [r * W + c + 1] else []) ++ (if r <? H - 1 then [r * W + c + W] else []).
Proof.
  intros Hc. unfold adj4.
  assert (E1 : (r * W + c) / W = r) by (symmetry; apply (Z.div_unique_pos _ _ _ c); lia).
  assert (E2 : (r * W + c) mod W = c) by (symmetry; apply (Z.mod_unique_pos _ _ r c); lia).
  rewrite E1, E2. reflexivity.
Qed.
Lemma adj4_length_le H W t : (length (adj4 H W t) <= 4)%nat.
Proof. unfold adj4. destruct (0 <? t / W), (0 <? t mod W), (t mod W <? W - 1), (t / W <? H - 1); cbn; lia. Qed.
Lemma skipn_pad (l : list Z) : (length l <= 4)%nat -> skipn (length l) [-1; -1; -1; -1] = repeat (-1) (4 - length l).
Proof. intros H. destruct l as [|a [|b [|c [|d [|e l]]]]]; cbn in *; try reflexivity; lia. Qed.
Lemma skipn_pad4 (l : list Z) : skipn (length l) (pad4 l) = repeat (-1) (4 - length l).
Proof. unfold pad4. rewrite skipn_app, skipn_all, Nat.sub_diag. reflexivity. Qed.

Section Nb.
  Variables H W : Z.
  Hypothesis HH : 2 <= H.
  Hypothesis HW : 2 <= W.

  Ltac adj_at r c := match goal with |- ?l = adj4 ?H ?W ?i =>
     transitivity (adj4 H W (r * W + c)); [rewrite adj4_rc by lia | f_equal; ring] end.
  Ltac fin := repeat match goal with |- context [Z.ltb ?a ?b] => destruct (Z.ltb_spec a b); try lia end;
              cbn [app]; repeat (f_equal; try nia).
  Lemma writes_consistent : Forall (consistent H W) (all_writes H W).
  Proof.
    unfold all_writes. rewrite !Forall_app. repeat split.
    - (* corners *)
      unfold corner_writes. repeat constructor; cbn [fst snd]; try nia.
      + adj_at 0 0. fin.
      + adj_at 0 (W - 1). fin.
      + adj_at (H - 1) 0. fin.
      + adj_at (H - 1) (W - 1). fin.
    - (* top edge *)
      unfold top_writes. apply Forall_forall. intros w Hw. apply in_map_iff in Hw. destruct Hw as [pix [<- Hp]].
      apply in_rangeZ in Hp. split; cbn [fst snd]; [nia|]. adj_at 0 pix. fin.
    - (* left edge *)
      unfold left_writes. apply Forall_forall. intros w Hw. apply in_map_iff in Hw. destruct Hw as [pix [<- Hp]].
      apply in_rangeZ in Hp. split; cbn [fst snd]; [nia|]. adj_at pix 0. fin.
    - (* right edge *)
      unfold right_writes. apply Forall_forall. intros w Hw. apply in_map_iff in Hw. destruct Hw as [pix [<- Hp]].
      apply in_rangeZ in Hp. split; cbn [fst snd]; [nia|]. adj_at pix (W - 1). fin.
    - (* bottom edge *)
      unfold bottom_writes. apply Forall_forall. intros w Hw. apply in_map_iff in Hw. destruct Hw as [pix [<- Hp]].
      apply in_rangeZ in Hp. split; cbn [fst snd]; [nia|]. adj_at (H - 1) (W - 1 - pix). fin.
    - (* centre *)
      unfold central_writes. apply Forall_forall. intros w Hw. apply in_flat_map in Hw. destruct Hw as [x [Hx Hw]].
      apply in_map_iff in Hw. destruct Hw as [y [<- Hy]]. apply in_rangeZ in Hx, Hy. split; cbn [fst snd]; [nia|].
      adj_at x y. fin.
  Qed.

  Lemma writes_cover t : 0 <= t < H * W -> exists w, In w (all_writes H W) /\ fst w = t.
  Proof.
    intros Ht. set (r := t / W). set (c := t mod W).
    assert (Et : t = r * W + c) by (unfold r, c; rewrite Z.mul_comm; apply Z.div_mod; lia).
    assert (Hc : 0 <= c < W) by (unfold c; apply Z.mod_pos_bound; lia).
    assert (Hr : 0 <= r < H) by (split; [unfold r; apply Z.div_pos; lia | apply Z.div_lt_upper_bound; nia]).
    unfold all_writes.
    destruct (Z.eq_dec r 0) as [R0|R0]; [|destruct (Z.eq_dec r (H - 1)) as [R1|R1]];
      (destruct (Z.eq_dec c 0) as [C0|C0]; [|destruct (Z.eq_dec c (W - 1)) as [C1|C1]]).
    - exists (0, [1; W]). split; [|cbn; nia]. apply in_or_app. left. cbn. auto.
    - exists (W - 1, [W - 2; W + W - 1]). split; [|cbn; nia]. apply in_or_app. left. cbn. auto.
    - eexists. split; [|shelve]. apply in_or_app. right. apply in_or_app. left.
      unfold top_writes. apply in_map_iff. exists c. split; [reflexivity|]. apply in_rangeZ. lia.
      Unshelve. cbn. nia.
    - exists (H * W - W, [H * W - W * 2; H * W - W + 1]). split; [|cbn; nia]. apply in_or_app. left. cbn. auto.
    - exists (H * W - 1, [H * W - W - 1; H * W - 2]). split; [|cbn; nia]. apply in_or_app. left. cbn. auto.
    - eexists. split; [|shelve]. do 4 (apply in_or_app; right). apply in_or_app. left.
      unfold bottom_writes. apply in_map_iff. exists (W - 1 - c). split; [reflexivity|]. apply in_rangeZ. lia.
      Unshelve. cbn. nia.
    - eexists. split; [|shelve]. do 2 (apply in_or_app; right). apply in_or_app. left.
      unfold left_writes. apply in_map_iff. exists r. split; [reflexivity|]. apply in_rangeZ. lia.
      Unshelve. cbn. nia.
    - eexists. split; [|shelve]. do 3 (apply in_or_app; right). apply in_or_app. left.
      unfold right_writes. apply in_map_iff. exists r. split; [reflexivity|]. apply in_rangeZ. lia.
      Unshelve. cbn. nia.
    - eexists. split; [|shelve]. do 5 (apply in_or_app; right).
      unfold central_writes. apply in_flat_map. exists r. split; [apply in_rangeZ; lia|].
      apply in_map_iff. exists c. split; [reflexivity|]. apply in_rangeZ. lia.
      Unshelve. cbn. nia.
  Qed.

  (* a row is either untouched or already final *)
  Definition good (t : nat) (row : list Z * Z) : Prop := row = init_row \/ row = final_row H W (Z.of_nat t).

  Lemma apply_write_at st w t : consistent H W w -> (t < length st)%nat -> good t (nth t st init_row) ->
    nth t (apply_write st w) init_row = if Nat.eqb (Z.to_nat (fst w)) t then final_row H W (Z.of_nat t) else nth t st init_row.
  Proof.
    intros [Hr Hv] Ht Hg. unfold apply_write. destruct (Nat.eqb_spec (Z.to_nat (fst w)) t) as [E|E].
    - rewrite nth_upd_row by lia. rewrite E, Nat.eqb_refl.
      assert (Ez : Z.of_nat t = fst w) by lia. unfold final_row. rewrite Ez, <- Hv. f_equal. unfold pad4. f_equal.
      rewrite Hv. destruct Hg as [->| ->].
      + cbn [fst init_row]. apply skipn_pad, adj4_length_le.
      + unfold final_row. cbn [fst]. rewrite Ez. apply skipn_pad4.
    - apply nth_upd_row_ne. exact E.
  Qed.
  Lemma apply_write_length st w : length (apply_write st w) = length st.
  Proof. unfold apply_write. apply upd_row_length. Qed.

  Lemma fold_good ws : forall st, Forall (consistent H W) ws ->
    (forall t, (t < length st)%nat -> good t (nth t st init_row)) ->
    length (fold_left apply_write ws st) = length st /\
    forall t, (t < length st)%nat ->
      good t (nth t (fold_left apply_write ws st) init_row) /\
      (nth t st init_row = final_row H W (Z.of_nat t) \/ (exists w, In w ws /\ Z.to_nat (fst w) = t) ->
       nth t (fold_left apply_write ws st) init_row = final_row H W (Z.of_nat t)).
  Proof.
    induction ws as [|w ws IH]; intros st HF Hg; cbn [fold_left].
    - split; auto. intros t Ht. split; auto. intros [E|[w [[] _]]]. exact E.
    - inversion HF as [|? ? Hw HF']; subst.
      assert (Hg' : forall t, (t < length (apply_write st w))%nat -> good t (nth t (apply_write st w) init_row)).
      { intros t Ht. rewrite apply_write_length in Ht. rewrite apply_write_at by auto.
        destruct (Nat.eqb _ t); [right; reflexivity | auto]. }
      destruct (IH (apply_write st w) HF' Hg') as [L G]. rewrite apply_write_length in L. split; [exact L|].
      intros t Ht. destruct (G t ltac:(rewrite apply_write_length; exact Ht)) as [G1 G2]. split; [exact G1|].
      intros Hcase. apply G2. rewrite apply_write_at by auto.
      destruct (Nat.eqb_spec (Z.to_nat (fst w)) t) as [E|E]; [left; reflexivity|].
      destruct Hcase as [E'|[w' [[<-|Hin] Ew']]]; [left; exact E' | contradiction | right; exists w'; auto].
  Qed.

  (* every row of the neighbour array is the 4-adjacency list (increasing index order) padded with -1, with its size *)
  Theorem rect_neighbors_adj4 t : 0 <= t < H * W ->
    length (rect_neighbors H W) = Z.to_nat (H * W) /\
    nth (Z.to_nat t) (rect_neighbors H W) init_row = final_row H W t.
  Proof.
    intros Ht. unfold rect_neighbors.
    destruct (fold_good (all_writes H W) (repeat init_row (Z.to_nat (H * W))) writes_consistent) as [L G].
    { intros t' Ht'. left. apply nth_repeat_any. }
    rewrite repeat_length in L, G. split; [exact L|].
    destruct (G (Z.to_nat t) ltac:(lia)) as [_ G2]. rewrite Z2Nat.id in G2 by lia. apply G2.
    right. destruct (writes_cover t Ht) as [w [Hin Ew]]. exists w. split; [exact Hin | rewrite Ew; reflexivity].
  Qed.
End Nb.

Lemma rc_inj W a b a' b' : 0 <= b < W -> 0 <= b' < W -> a * W + b = a' * W + b' -> a = a' /\ b = b'.
Proof.
  intros Hb Hb' E.
  assert (E1 : (a * W + b) / W = a) by (symmetry; apply (Z.div_unique_pos _ _ _ b); lia).
  assert (E2 : (a' * W + b') / W = a') by (symmetry; apply (Z.div_unique_pos _ _ _ b'); lia).
  rewrite E in E1. assert (a = a') by congruence. subst a'. split; [reflexivity | lia].
Qed.

(* 4-adjacency is symmetric *)
Theorem adj4_symmetric H W t q : 0 < W -> 0 <= t < H * W -> 0 <= q < H * W -> In q (adj4 H W t) -> In t (adj4 H W q).
Proof.
  intros HW Ht Hq.
  assert (D : forall x, 0 <= x < H * W -> x = (x / W) * W + x mod W /\ 0 <= x mod W < W /\ 0 <= x / W < H).
  { intros x Hx. split; [rewrite Z.mul_comm; apply Z.div_mod; lia|]. split; [apply Z.mod_pos_bound; lia|].
    split; [apply Z.div_pos; lia | apply Z.div_lt_upper_bound; nia]. }
  destruct (D t Ht) as [Et [Hc Hr]]. destruct (D q Hq) as [Eq [Hc' Hr']].
  set (r := t / W) in *. set (c := t mod W) in *. set (r' := q / W) in *. set (c' := q mod W) in *.
  rewrite Et, Eq. rewrite !adj4_rc by lia. rewrite !in_app_iff.
  pose proof (rc_inj W) as INJ.
  intros [Hi|[Hi|[Hi|Hi]]].
  - destruct (Z.ltb_spec 0 r); [|destruct Hi]. destruct Hi as [Hi|[]].
    destruct (INJ (r - 1) c r' c') as [E1 E2]; try lia. rewrite <- E1, <- E2.
    do 3 right. destruct (Z.ltb_spec (r - 1) (H - 1)); [|lia]. left. ring.
  - destruct (Z.ltb_spec 0 c); [|destruct Hi]. destruct Hi as [Hi|[]].
    destruct (INJ r (c - 1) r' c') as [E1 E2]; try lia. rewrite <- E1, <- E2.
    do 2 right. left. destruct (Z.ltb_spec (c - 1) (W - 1)); [|lia]. left. ring.
  - destruct (Z.ltb_spec c (W - 1)); [|destruct Hi]. destruct Hi as [Hi|[]].
    destruct (INJ r (c + 1) r' c') as [E1 E2]; try lia. rewrite <- E1, <- E2.
    right. left. destruct (Z.ltb_spec 0 (c + 1)); [|lia]. left. ring.
  - destruct (Z.ltb_spec r (H - 1)); [|destruct Hi]. destruct Hi as [Hi|[]].
    destruct (INJ (r + 1) c r' c') as [E1 E2]; try lia. rewrite <- E1, <- E2.
    left. destruct (Z.ltb_spec 0 (r + 1)); [|lia]. left. ring.
Qed.
(* ... and is exactly "differs by one step along one axis" *)
Theorem adj4_geometric H W r c r' c' : 0 <= c < W -> 0 <= c' < W -> 0 <= r < H -> 0 <= r' < H ->
  (In (r' * W + c') (adj4 H W (r * W + c)) <-> Z.abs (r - r') + Z.abs (c - c') = 1).
Proof.
  intros Hc Hc' Hr Hr'. rewrite adj4_rc by lia. rewrite !in_app_iff.
  pose proof (rc_inj W) as INJ.
  split.
  - intros [Hi|[Hi|[Hi|Hi]]].
    + destruct (Z.ltb_spec 0 r); [|destruct Hi]. destruct Hi as [Hi|[]]. destruct (INJ (r - 1) c r' c'); lia.
    + destruct (Z.ltb_spec 0 c); [|destruct Hi]. destruct Hi as [Hi|[]]. destruct (INJ r (c - 1) r' c'); lia.
    + destruct (Z.ltb_spec c (W - 1)); [|destruct Hi]. destruct Hi as [Hi|[]]. destruct (INJ r (c + 1) r' c'); lia.
    + destruct (Z.ltb_spec r (H - 1)); [|destruct Hi]. destruct Hi as [Hi|[]]. destruct (INJ (r + 1) c r' c'); lia.
  - intros Habs.
    assert (Cases : (r' = r - 1 /\ c' = c) \/ (r' = r /\ c' = c - 1) \/ (r' = r /\ c' = c + 1) \/ (r' = r + 1 /\ c' = c)) by lia.
    destruct Cases as [[-> ->]|[[-> ->]|[[-> ->]|[-> ->]]]].
    + left. destruct (Z.ltb_spec 0 r); [|lia]. left. ring.
    + right. left. destruct (Z.ltb_spec 0 c); [|lia]. left. ring.
    + do 2 right. left. destruct (Z.ltb_spec c (W - 1)); [|lia]. left. ring.
    + do 3 right. destruct (Z.ltb_spec r (H - 1)); [|lia]. left. ring.
Qed.

(* ------------------------------------------------------------------ K. Delaunay neighbours: CSR -> padded rows *)
Lemma maxZ0_fold l : forall a, a <= fold_left Z.max l a /\ forall x, In x l -> x <= fold_left Z.max l a.
Proof.
  induction l as [|y l IH]; intros a; cbn [fold_left]; [split; [lia | intros x []]|].
  destruct (IH (Z.max a y)) as [A B]. split; [lia|]. intros x [<-|Hx]; [lia | auto].
Qed.
Lemma maxZ0_ge l x : In x l -> x <= maxZ0 l.
Proof. apply maxZ0_fold. Qed.

(* row k of the padded array: the slice indices[indptr[k] : indptr[k+1]] followed by -1's; sizes[k] is the slice length *)
Theorem del_neighbors_rows indptr indices P k : length indptr = S P -> (k < P)%nat ->
  0 <= nth k indptr 0 <= nth (S k) indptr 0 -> nth (S k) indptr 0 <= Z.of_nat (length indices) ->
  let '(rows, sizes) := del_neighbors indptr indices P in
  let a := Z.to_nat (nth k indptr 0) in let b := Z.to_nat (nth (S k) indptr 0) in
  nth k sizes 0 = Z.of_nat (b - a) /\
  firstn (b - a) (nth k rows []) = firstn (b - a) (skipn a indices) /\
  length (firstn (b - a) (skipn a indices)) = (b - a)%nat /\
  forall j, (b - a <= j)%nat -> nth j (nth k rows []) (-1) = -1.
Proof.
  intros HL Hk Hmono Hb. unfold del_neighbors. cbv zeta.
  set (sizes := map (fun k => nth (S k) indptr 0 - nth k indptr 0) (seq 0 (length indptr - 1))).
  set (a := Z.to_nat (nth k indptr 0)). set (b := Z.to_nat (nth (S k) indptr 0)).
  assert (Es : nth k sizes 0 = Z.of_nat (b - a)).
  { unfold sizes. rewrite (nth_map_lt _ _ _ _ 0%nat) by (rewrite seq_length; lia).
    rewrite seq_nth by lia. cbn [plus]. unfold a, b. lia. }
  assert (Hw : (b - a <= Z.to_nat (maxZ0 sizes))%nat).
  { assert (In (nth k sizes 0) sizes) by (apply nth_In; unfold sizes; rewrite map_length, seq_length; lia).
    apply maxZ0_ge in H. lia. }
  assert (Lr : length (firstn (b - a) (skipn a indices)) = (b - a)%nat).
  { rewrite firstn_length, skipn_length. unfold a, b. lia. }
  split; [exact Es|].
  rewrite (nth_map_lt _ _ _ _ 0%nat) by (rewrite seq_length; lia). rewrite seq_nth by lia. cbn [plus].
  fold a b. split; [|split; [exact Lr|]].
  - rewrite firstn_app, Lr, Nat.sub_diag. cbn [firstn]. rewrite app_nil_r.
    rewrite firstn_all2 by (rewrite Lr; lia). reflexivity.
  - intros j Hj. rewrite app_nth2 by (rewrite Lr; lia). rewrite Lr.
    destruct (lt_dec (j - (b - a)) (Z.to_nat (maxZ0 sizes) - (b - a))) as [Q|Q].
    + apply nth_repeat_lt. exact Q.
    + apply nth_overflow. rewrite repeat_length. lia.
Qed.

Local Open Scope R_scope.
(* ------------------------------------------------------------------ L. assembled statements *)
Theorem slim_for_sub_blocks m subs : length subs = count_unmasked m ->
  length (slim_for_sub m subs) = total_sub subs /\
  forall i s d, (i < length subs)%nat -> (s < total_sub subs)%nat ->
    (nth s (slim_for_sub m subs) d = i <-> (offset subs i <= s < offset subs i + sq_n (nth i subs 0))%nat).
Proof.
  intros HL. rewrite slim_for_sub_spec, <- HL. split; [apply sfs_list_length|].
  intros i s d Hi Hs. apply sfs_block; assumption.
Qed.

(* the code's weight row for a sub-pixel inside a simplex is the triple of area ratios *)
Theorem del_weight_row_area (mesh : list Rpt) (p : Rpt) a b c : b <> (-1)%Z ->
  @del_weight_row ROps mesh p [a; b; c] =
  let '(w0, w1, w2) := area_weights (@vertex ROps mesh [a; b; c] 0) (@vertex ROps mesh [a; b; c] 1) (@vertex ROps mesh [a; b; c] 2) p in
  [w0; w1; w2].
Proof.
  intros Hb. unfold del_weight_row. cbn [nthZ nth]. destruct (Z.eqb_spec b (-1)); [contradiction|]. cbn [negb].
  unfold area_weights. cbv zeta. runfold. reflexivity.
Qed.
Theorem del_weight_row_single (mesh : list Rpt) (p : Rpt) a : @del_weight_row ROps mesh p [a; (-1)%Z; (-1)%Z] = [1; 0; 0].
Proof. unfold del_weight_row. cbn [nthZ nth]. cbn. unfold one, zero. cbn. reflexivity. Qed.

(* the sparse encodings of the two mappers encode their dense matrices *)
Theorem rect_unique_encodes_dense m subs (grid : list Rpt) n0 n1 (b : R) :
  length subs = count_unmasked m -> (forall i, (i < length subs)%nat -> (1 <= nth i subs 0)%nat) ->
  length grid = total_sub subs -> (0 < n0)%Z -> (0 < n1)%Z -> 0 < b ->
  let g := @overlay ROps (n0, n1) grid b in
  let '(mp, sz, wt) := @rect_psw ROps g grid in
  let P := Z.to_nat (n0 * n1) in
  exists M rows,
    @mapping_matrix ROps mp sz wt P (count_unmasked m) (slim_for_sub m subs) (@sub_fractions ROps subs) = Ok M /\
    @unique_from ROps mp sz wt P subs = Ok rows /\ length rows = count_unmasked m /\
    forall i, (i < count_unmasked m)%nat ->
      let '(u, w, n) := nth i rows ([], [], 0%nat) in
      (n <= length u)%nat /\ length w = length u /\ NoDup (firstn n u)
      /\ (forall k, (k < n)%nat -> (0 <= nth k u (-1) < Z.of_nat P)%Z)
      /\ (forall k, (n <= k)%nat -> nth k u (-1)%Z = (-1)%Z /\ nth k w 0 = 0)
      /\ (forall p, (p < P)%nat ->
            sumR (map (fun k => if Z.eqb (nth k u (-1)%Z) (Z.of_nat p) then nth k w 0 else 0) (seq 0 n)) = mgetR M i p).
Proof.
  intros HL HS HG H0 H1 Hb. cbv zeta.
  pose proof (rect_mapper_ok m subs grid n0 n1 b HL HS HG H0 H1 Hb) as HM.
  destruct (@rect_psw ROps (@overlay ROps (n0, n1) grid b) grid) as [[mp sz] wt] eqn:E. cbn [fst snd] in HM.
  destruct (entry_block_formula m subs _ mp sz wt HM) as [M [EM _]].
  destruct (unique_encodes_dense m subs _ mp sz wt HM M EM) as [rows [Er [Lr Hr]]].
  exists M, rows. repeat split; auto.
Qed.

Theorem del_unique_encodes_dense m subs (grid points : list Rpt) simplices simplex_for :
  length subs = count_unmasked m -> (forall i, (i < length subs)%nat -> (1 <= nth i subs 0)%nat) ->
  length grid = total_sub subs -> length simplex_for = length grid -> points <> [] ->
  (forall row, In row simplices ->
    exists a b c, row = [a; b; c] /\ (0 <= a < Z.of_nat (length points))%Z /\ (0 <= b < Z.of_nat (length points))%Z
                  /\ (0 <= c < Z.of_nat (length points))%Z
                  /\ crossR (vtxR points row 0) (vtxR points row 1) (vtxR points row 2) <> 0) ->
  (forall t, In t simplex_for -> t = (-1)%Z \/ (0 <= t < Z.of_nat (length simplices))%Z) ->
  let mp := fst (@del_mappings ROps grid simplex_for simplices points) in
  let sz := snd (@del_mappings ROps grid simplex_for simplices points) in
  let wt := @del_weights ROps grid points mp in
  let P := length points in
  exists M rows,
    @mapping_matrix ROps mp sz wt P (count_unmasked m) (slim_for_sub m subs) (@sub_fractions ROps subs) = Ok M /\
    @unique_from ROps mp sz wt P subs = Ok rows /\ length rows = count_unmasked m /\
    forall i, (i < count_unmasked m)%nat ->
      let '(u, w, n) := nth i rows ([], [], 0%nat) in
      (n <= length u)%nat /\ length w = length u /\ NoDup (firstn n u)
      /\ (forall k, (k < n)%nat -> (0 <= nth k u (-1) < Z.of_nat P)%Z)
      /\ (forall k, (n <= k)%nat -> nth k u (-1)%Z = (-1)%Z /\ nth k w 0 = 0)
      /\ (forall p, (p < P)%nat ->
            sumR (map (fun k => if Z.eqb (nth k u (-1)%Z) (Z.of_nat p) then nth k w 0 else 0) (seq 0 n)) = mgetR M i p).
Proof.
  intros HL HS HG HF HP Hsimp Hidx. cbv zeta.
  pose proof (del_mapper_ok m subs grid points simplices simplex_for HL HS HG HF HP Hsimp Hidx) as HM.
  set (mp := fst (@del_mappings ROps grid simplex_for simplices points)) in *.
  set (sz := snd (@del_mappings ROps grid simplex_for simplices points)) in *.
  destruct (entry_block_formula m subs _ mp sz (@del_weights ROps grid points mp) HM) as [M [EM _]].
  destruct (unique_encodes_dense m subs _ mp sz _ HM M EM) as [rows [Er [Lr Hr]]].
  exists M, rows. repeat split; auto.
Qed.

Lemma subs_okb_ok m subs : subs_okb m subs = true ->
  length subs = count_unmasked m /\ forall i, (i < length subs)%nat -> (1 <= nth i subs 0)%nat.
Proof.
  unfold subs_okb. rewrite andb_true_iff, Nat.eqb_eq, forallb_forall. intros [A B]. split; [exact A|].
  intros i Hi. apply Nat.leb_le, B, nth_In, Hi.
Qed.
Lemma mapper_okb_ok m subs P mp sz : mapper_okb m subs P mp sz = true -> mapper_ok m subs P mp sz.
Proof.
  unfold mapper_okb. rewrite andb_true_iff. intros [A B]. destruct (subs_okb_ok _ _ A) as [A1 A2].
  constructor; auto. intros s k Hs Hk. rewrite forallb_forall in B.
  specialize (B s ltac:(apply in_seq; lia)). rewrite forallb_forall in B. specialize (B k ltac:(apply in_seq; lia)).
  apply andb_true_iff in B. destruct B as [B1 B2]. apply Z.leb_le in B1. apply Z.ltb_lt in B2. lia.
Qed.

Local Open Scope Z_scope.
(* ------------------------------------------------------------------ M. the edge relation of a set of simplices *)
Theorem tri_neighbors_spec simplices a b :
  In b (tri_neighbors simplices a) <-> exists s, In s simplices /\ In a s /\ In b s /\ b <> a.
Proof.
  unfold tri_neighbors. rewrite nodup_In, in_flat_map. split.
  - intros [s [Hs Hin]]. exists s. split; [exact Hs|].
    destruct (existsb (Z.eqb a) s) eqn:E; [|destruct Hin].
    apply existsb_exists in E. destruct E as [x [Hx Ex]]. apply Z.eqb_eq in Ex. subst x.
    apply filter_In in Hin. destruct Hin as [Hb Hne]. apply negb_true_iff, Z.eqb_neq in Hne. auto.
  - intros [s [Hs [Ha [Hb Hne]]]]. exists s. split; [exact Hs|].
    assert (E : existsb (Z.eqb a) s = true) by (apply existsb_exists; exists a; split; [exact Ha | apply Z.eqb_refl]).
    rewrite E. apply filter_In. split; [exact Hb|]. apply negb_true_iff, Z.eqb_neq. exact Hne.
Qed.
Theorem tri_neighbors_symmetric simplices a b : In b (tri_neighbors simplices a) -> In a (tri_neighbors simplices b).
Proof.
  rewrite !tri_neighbors_spec. intros [s [Hs [Ha [Hb Hne]]]]. exists s. repeat split; auto.
Qed.

(* ------------------------------------------------------------------ N. per-sub-pixel weights, stated without a mask *)
Local Open Scope R_scope.
Lemma count_unmasked_row L : count_unmasked [repeat false L] = L.
Proof.
  unfold count_unmasked. cbn [concat]. rewrite app_nil_r.
  induction L as [|L IH]; cbn; [reflexivity | rewrite IH; reflexivity].
Qed.
Lemma offset_ones L : forall k, (k <= L)%nat -> offset (repeat 1%nat L) k = k.
Proof.
  induction L as [|L IH]; intros k Hk.
  - assert (k = 0%nat) by lia. subst. reflexivity.
  - destruct k as [|k]; [reflexivity|]. cbn [repeat offset]. rewrite IH by lia. reflexivity.
Qed.
Lemma total_sub_ones L : total_sub (repeat 1%nat L) = L.
Proof. unfold total_sub. rewrite repeat_length. apply offset_ones. lia. Qed.

(* rectangular: the listed weight of grid point s towards source pixel p is the indicator of "cell p contains it" *)
Theorem rect_weight_is_cell_indicator n0 n1 (grid : list Rpt) (b : R) : (0 < n0)%Z -> (0 < n1)%Z -> 0 < b ->
  let g := @overlay ROps (n0, n1) grid b in
  forall s p, (s < length grid)%nat -> (p < Z.to_nat (n0 * n1))%nat ->
    listed_weight (fst (fst (@rect_psw ROps g grid))) (snd (fst (@rect_psw ROps g grid))) (snd (@rect_psw ROps g grid)) s p
    = @rect_weight ROps (@geom_of_extent ROps (n0, n1) grid b) (nth s grid (0, 0)) p.
Proof.
  intros H0 H1 Hb g s p Hs Hp.
  apply (rect_listed [repeat false (length grid)] (repeat 1%nat (length grid)) grid n0 n1 b); auto.
  - rewrite repeat_length, count_unmasked_row. reflexivity.
  - rewrite total_sub_ones. reflexivity.
Qed.
(* Delaunay: the listed weight is del_w (area ratios of the reported simplex / nearest-vertex indicator) *)
Theorem del_weight_is_claimed (grid points : list Rpt) simplices simplex_for :
  length simplex_for = length grid ->
  (forall row, In row simplices ->
    exists a b c, row = [a; b; c] /\ (0 <= a < Z.of_nat (length points))%Z /\ (0 <= b < Z.of_nat (length points))%Z
                  /\ (0 <= c < Z.of_nat (length points))%Z
                  /\ crossR (vtxR points row 0) (vtxR points row 1) (vtxR points row 2) <> 0) ->
  (forall t, In t simplex_for -> t = (-1)%Z \/ (0 <= t < Z.of_nat (length simplices))%Z) ->
  let mp := fst (@del_mappings ROps grid simplex_for simplices points) in
  forall s p, (s < length grid)%nat ->
    listed_weight mp (snd (@del_mappings ROps grid simplex_for simplices points)) (@del_weights ROps grid points mp) s p
    = del_w grid points simplices simplex_for s p.
Proof.
  intros HF Hsimp Hidx mp s p Hs.
  apply (del_listed [repeat false (length grid)] (repeat 1%nat (length grid)) grid points simplices simplex_for); auto.
  - rewrite repeat_length, count_unmasked_row. reflexivity.
  - rewrite total_sub_ones. reflexivity.
Qed.

(* inside the reported simplex (the oracle's contract) the claimed weight is the barycentric one *)
Theorem del_w_barycentric (grid points : list Rpt) simplices simplex_for s p :
  nth s simplex_for (-1)%Z <> (-1)%Z ->
  let q := nth s grid (0, 0) in
  let row := nth (Z.to_nat (nth s simplex_for (-1)%Z)) simplices [] in
  crossR (vtxR points row 0) (vtxR points row 1) (vtxR points row 2) <> 0 ->
  @in_triangle ROps (vtxR points row 0) (vtxR points row 1) (vtxR points row 2) q = true ->
  del_w grid points simplices simplex_for s p =
  let '(b0, b1, b2) := @bary ROps (vtxR points row 0) (vtxR points row 1) (vtxR points row 2) q in
  (if Z.eqb (nthZ row 0) (Z.of_nat p) then b0 else 0) + (if Z.eqb (nthZ row 1) (Z.of_nat p) then b1 else 0)
  + (if Z.eqb (nthZ row 2) (Z.of_nat p) then b2 else 0).
Proof.
  intros Ht q row Hd Hin. unfold del_w. fold q. destruct (Z.eqb_spec (nth s simplex_for (-1)%Z) (-1)); [contradiction|].
  fold row. rewrite (area_weights_barycentric _ _ _ _ Hd Hin). reflexivity.
Qed.
