(* C20 -- the model has no intrinsic length scale: containment decisions are unchanged and subdivision / reflection /
   area are covariant when every length is multiplied by the same positive factor (so no absolute tolerance can be
   hidden in them). *)
From Coq Require Import ZArith List Bool Reals Lra Lia.
From PAV Require Import Base.Res Base.NumOps Model.C20 Model.C20Spec Model.C20Scale Proofs.C20.
Import ListNotations.
Local Open Scope R_scope.

Lemma Rleb_scale (k x y : R) : 0 < k -> Rleb (k * x) (k * y) = Rleb x y.
Proof.
  intros Hk. destruct (Rleb x y) eqn:E; rbool.
  - apply Rleb_true. apply Rmult_le_compat_l; lra.
  - apply Rleb_false. apply Rmult_lt_compat_l; lra.
Qed.

Lemma bary_mask_scale (s : R) (p a b c : rpt) : s <> 0 ->
  @bary_mask ROps (scale_pt s p) (scale_pt s a) (scale_pt s b) (scale_pt s c) = @bary_mask ROps p a b c.
Proof.
  intros Hs. destruct p as [px py], a as [x1 y1], b as [x2 y2], c as [x3 y3].
  unfold bary_mask, scale_pt. rsimp. cbn [eqb leb ROps].
  set (den := (y2 - y3) * (x1 - x3) + (x3 - x2) * (y1 - y3)).
  replace ((s * y2 - s * y3) * (s * x1 - s * x3) + (s * x3 - s * x2) * (s * y1 - s * y3)) with (s * s * den)
    by (unfold den; ring).
  destruct (Reqb den 0) eqn:E; rbool.
  - rewrite E. replace (s * s * 0) with 0 by ring. destruct (Reqb 0 0) eqn:E0; rbool; [reflexivity|contradiction].
  - assert (Hd : s * s * den <> 0) by (repeat apply Rmult_integral_contrapositive_currified; assumption).
    destruct (Reqb (s * s * den) 0) eqn:E2; rbool; [contradiction|].
    replace (((s * y2 - s * y3) * (s * px - s * x3) + (s * x3 - s * x2) * (s * py - s * y3)) / (s * s * den))
      with (((y2 - y3) * (px - x3) + (x3 - x2) * (py - y3)) / den) by (field; split; assumption).
    replace (((s * y3 - s * y1) * (s * px - s * x3) + (s * x1 - s * x3) * (s * py - s * y3)) / (s * s * den))
      with (((y3 - y1) * (px - x3) + (x1 - x3) * (py - y3)) / den) by (field; split; assumption).
    reflexivity.
Qed.

Lemma point_mask_scale (s : R) (p : rpt) (t : rtri) : s <> 0 ->
  point_mask (scale_pt s p) (scale_tri s t) = point_mask p t.
Proof. intros Hs. destruct t as [[a b] c]. unfold point_mask, scale_tri, v0, v1, v2. cbn [fst snd]. apply bary_mask_scale, Hs. Qed.

Lemma centroid_scale (s : R) (t : rtri) : centroid (scale_tri s t) = scale_pt s (centroid t).
Proof.
  destruct t as [[[x1 y1] [x2 y2]] [x3 y3]]. unfold centroid, scale_tri, scale_pt. rsimp. f_equal; field.
Qed.

Lemma swap_scale (s : R) (p : rpt) : swap (scale_pt s p) = scale_pt s (swap p).
Proof. reflexivity. Qed.

Lemma sumT_scale (s : R) (l : list R) : @sumT ROps (map (Rmult s) l) = s * @sumT ROps l.
Proof.
  induction l as [|x l IH] using rev_ind; [unfold sumT, zero; cbn; ring|].
  rewrite map_app, !sumT_R_app, IH. unfold sumT, zero. cbn. ring.
Qed.

Lemma mean_scale (s : R) (l : list R) : @mean ROps (map (Rmult s) l) = s * @mean ROps l.
Proof.
  unfold mean. rewrite sumT_scale, map_length. cbn [div ROps T].
  change (s * @sumT ROps l / @ofNat ROps (length l) = s * (@sumT ROps l / @ofNat ROps (length l))).
  unfold Rdiv. apply Rmult_assoc.
Qed.

Lemma tri_ref_scale (s : R) (a b c : rpt) :
  tri_ref (scale_pt s a) (scale_pt s b) (scale_pt s c) = scale_pt s (tri_ref a b c).
Proof.
  unfold tri_ref, scale_pt. cbn [fst snd].
  change [s * fst a; s * fst b; s * fst c] with (map (Rmult s) [fst a; fst b; fst c]).
  change [s * snd a; s * snd b; s * snd c] with (map (Rmult s) [snd a; snd b; snd c]).
  rewrite !mean_scale. reflexivity.
Qed.

Lemma tri_shape_mask_scale (s : R) (a b c : rpt) (t : rtri) : s <> 0 ->
  tri_shape_mask (scale_pt s a) (scale_pt s b) (scale_pt s c) (scale_tri s t) = tri_shape_mask a b c t.
Proof.
  intros Hs. unfold tri_shape_mask, tri_contains.
  rewrite centroid_scale, !swap_scale, bary_mask_scale by exact Hs.
  rewrite tri_ref_scale, point_mask_scale by exact Hs. reflexivity.
Qed.

Lemma fan_scale (s : R) (first : rpt) (l : list rpt) :
  fan (scale_pt s first) (map (scale_pt s) l)
  = map (fun f => (scale_pt s (fst (fst f)), scale_pt s (snd (fst f)), scale_pt s (snd f))) (fan first l).
Proof.
  induction l as [|x l IH]; [reflexivity|]. destruct l as [|y l']; [reflexivity|].
  cbn [map fan] in *. rewrite IH. reflexivity.
Qed.

Lemma shape_ref_scale (s : R) (sh : shape ROps) : shape_ref (scale_shape s sh) = scale_pt s (shape_ref sh).
Proof.
  destruct sh as [p|p r|a b c|vs|tp bt lf rg]; cbn [scale_shape shape_ref]; try reflexivity.
  - apply tri_ref_scale.
  - rewrite !map_map. unfold scale_pt at 3. f_equal.
    + replace (map (fun x : rpt => fst (scale_pt s x)) vs) with (map (Rmult s) (map fst vs))
        by (rewrite map_map; reflexivity).
      apply mean_scale.
    + replace (map (fun x : rpt => snd (scale_pt s x)) vs) with (map (Rmult s) (map snd vs))
        by (rewrite map_map; reflexivity).
      apply mean_scale.
  - unfold scale_pt. rsimp. f_equal; field.
Qed.

(* every containment decision of every shape is unchanged when shape and triangle are scaled together *)
Lemma shape_mask_scale (s : R) (sh : shape ROps) (t : rtri) : 0 < s ->
  shape_mask (scale_shape s sh) (scale_tri s t) = shape_mask sh t.
Proof.
  intros Hs. assert (Hn : s <> 0) by lra.
  destruct sh as [p|p r|a b c|vs|tp bt lf rg].
  - cbn [scale_shape shape_mask]. apply point_mask_scale, Hn.
  - cbn [scale_shape shape_mask]. rewrite centroid_scale, point_mask_scale by exact Hn. f_equal.
    destruct (centroid t) as [cx cy], p as [px py]. unfold scale_pt. rsimp. cbn [leb ROps].
    replace ((s * cx - s * px) * (s * cx - s * px) + (s * cy - s * py) * (s * cy - s * py))
      with (s * s * ((cx - px) * (cx - px) + (cy - py) * (cy - py))) by ring.
    replace (s * r * (s * r)) with (s * s * (r * r)) by ring.
    apply Rleb_scale. apply Rmult_lt_0_compat; exact Hs.
  - cbn [scale_shape shape_mask]. apply tri_shape_mask_scale, Hn.
  - change (shape_mask (scale_shape s (SPolygon vs)) (scale_tri s t))
      with (existsb (fun f => tri_shape_mask (fst (fst f)) (snd (fst f)) (snd f) (scale_tri s t))
                    (poly_fan (map (scale_pt s) vs))
            || point_mask (shape_ref (scale_shape s (SPolygon vs))) (scale_tri s t)).
    rewrite shape_ref_scale, point_mask_scale by exact Hn. cbn [shape_mask]. f_equal.
    destruct vs as [|first rest]; [reflexivity|]. cbn [map poly_fan]. rewrite fan_scale.
    induction (fan first rest) as [|f l IH]; [reflexivity|]. cbn [map existsb fst snd].
    rewrite tri_shape_mask_scale by exact Hn. rewrite IH. reflexivity.
  - change (shape_mask (scale_shape s (SSquare tp bt lf rg)) (scale_tri s t))
      with (let c := centroid (scale_tri s t) in
            (Rleb (s * lf) (fst c) && Rleb (fst c) (s * rg) && Rleb (snd c) (s * bt) && Rleb (s * tp) (snd c))
            || point_mask (shape_ref (scale_shape s (SSquare tp bt lf rg))) (scale_tri s t)).
    rewrite shape_ref_scale, point_mask_scale by exact Hn. cbv zeta. rewrite centroid_scale.
    cbn [shape_mask leb ROps]. destruct (centroid t) as [cx cy]. unfold scale_pt. cbn [fst snd].
    rewrite !Rleb_scale by exact Hs. reflexivity.
Qed.

(* subdivision and reflection commute with scaling; areas scale by the square of the factor *)
Lemma up_sample_scale (s : R) (ts : list rtri) :
  up_sample_triangles (map (scale_tri s) ts) = map (scale_tri s) (up_sample_triangles ts).
Proof.
  unfold up_sample_triangles. rewrite !map_app, !map_map.
  f_equal; [|f_equal; [|f_equal]]; apply map_ext; intros [[[x1 y1] [x2 y2]] [x3 y3]]; unfold scale_tri, scale_pt; rsimp;
    (apply f_equal2; [apply f_equal2|]); apply f_equal2; field.
Qed.

Lemma neighborhood_scale (s : R) (ts : list rtri) :
  neighborhood_triangles (map (scale_tri s) ts) = map (scale_tri s) (neighborhood_triangles ts).
Proof.
  unfold neighborhood_triangles. rewrite !map_app, !map_map.
  f_equal; [|f_equal; [|f_equal]]; try (rewrite map_id; reflexivity);
    apply map_ext; intros [[[x1 y1] [x2 y2]] [x3 y3]]; unfold scale_tri, scale_pt; rsimp;
    (apply f_equal2; [apply f_equal2|]); apply f_equal2; ring.
Qed.

Lemma absT_R (x : R) : @absT ROps x = Rabs x.
Proof.
  unfold absT, zero. cbn [ltb ROps ofZ opp]. destruct (Rltb x 0) eqn:E; rbool.
  - rewrite Rabs_left; lra.
  - rewrite Rabs_right; lra.
Qed.

Lemma area_scale (s : R) (ts : list rtri) : area (map (scale_tri s) ts) = s * s * area ts.
Proof.
  unfold area. rewrite map_map.
  replace (map (fun t : rtri => @absT ROps (@cross_sum ROps (scale_tri s t))) ts)
    with (map (Rmult (s * s)) (map (fun t : rtri => @absT ROps (@cross_sum ROps t)) ts)).
  - rewrite sumT_scale. rsimp. set (X := @sumT ROps _). change (1 / 2 * (s * s * X) = s * s * (1 / 2 * X)). ring.
  - rewrite map_map. apply map_ext. intros [[[x1 y1] [x2 y2]] [x3 y3]]. rewrite !absT_R. unfold scale_tri, scale_pt. rsimp.
    replace (s * x1 * (s * y2 - s * y3) + s * x2 * (s * y3 - s * y1) + s * x3 * (s * y1 - s * y2))
      with (s * s * (x1 * (y2 - y3) + x2 * (y3 - y1) + x3 * (y1 - y2))) by ring.
    rewrite Rabs_mult. f_equal. symmetry. apply Rabs_right. nra.
Qed.
