(* C04, part 4 -- the hypothesis "a mapper's unique-mapping encoding represents its mapping matrix" (wf_obj, mapper part) discharged
   from C06's development: for ANY mapper arrays (mappings, sizes, weights: rectangular and Delaunay mappers alike) that satisfy C06's
   [mapper_ok], the dense matrix built by mapper_util.mapping_matrix_from together with the sparse triple built by
   mapper_util.data_slim_to_pixelization_unique_from IS a well-formed C04 mapper object. *)
From Coq Require Import ZArith Reals Lra Lia List Bool Arith.
From PAV Require Import Base.Res Base.NumOps Base.Sum Model.C03 Model.C03Lib Model.C04 Model.C04Lib.
From PAV Require Import Proofs.C04.
From PAV Require Model.C06 Proofs.C06.
Import ListNotations.
Local Open Scope R_scope.
Module M6 := PAV.Model.C06.
Module P6 := PAV.Proofs.C06.
From PAV Require Proofs.C03.
Module P3 := PAV.Proofs.C03.

(* the C04 view of C06's rows (data_to_pix_unique row, data_weights row, pix_lengths entry) *)
Definition enc_of_rows (rows : list (list Z * list R * nat)) : @enc ROps :=
  @Build_enc ROps (map (fun r => fst (fst r)) rows) (map (fun r => snd (fst r)) rows) (map (@snd _ _) rows).

Lemma firstn_seq0 n L : (n <= L)%nat -> firstn n (seq 0 L) = seq 0 n.
Proof.
  intros H. replace L with (n + (L - n))%nat by lia. rewrite seq_app, firstn_app, seq_length, Nat.sub_diag. cbn [firstn].
  rewrite app_nil_r. rewrite firstn_all2 by (rewrite seq_length; lia). reflexivity.
Qed.
Lemma firstn_combine_seq {A B} (a : list A) (b : list B) da db n : (n <= length a)%nat -> length b = length a ->
  firstn n (combine a b) = map (fun k => (nth k a da, nth k b db)) (seq 0 n).
Proof.
  intros Hn Hl. rewrite (combine_nth_map a b da db (length a)) by auto. rewrite firstn_map. now rewrite firstn_seq0.
Qed.

Lemma enc_row_of_rows rows d :
  let '(u, w, n) := nth d rows ([], [], 0%nat) in
  enc_row (enc_of_rows rows) d = firstn n (combine (map Z.to_nat u) w).
Proof.
  unfold enc_row, enc_of_rows. cbn [e_pl e_du e_dw]. rfix. destruct (Nat.lt_ge_cases d (length rows)) as [Hd|Hd].
  - rewrite (P6.nth_map_lt (@snd _ _) rows d 0%nat ([], [], 0%nat)) by exact Hd.
    rewrite (P6.nth_map_lt (fun r : list Z * list R * nat => fst (fst r)) rows d [] ([], [], 0%nat)) by exact Hd.
    rewrite (P6.nth_map_lt (fun r : list Z * list R * nat => snd (fst r)) rows d [] ([], [], 0%nat)) by exact Hd.
    destruct (nth d rows ([], [], 0%nat)) as [[u w] n]. reflexivity.
  - rewrite !nth_overflow by (rewrite ?map_length; lia). reflexivity.
Qed.

Section Bridge.
  Variables (m : M6.mask) (subs : list nat) (P : nat) (mp : list (list Z)) (sz : list nat) (wt : list (list R)).
  Hypothesis Hok : P6.mapper_ok m subs P mp sz.
  Variable n : nat.
  Hypothesis Hcount : M6.count_unmasked m = n.
  Hypothesis Hn : (0 < n)%nat.
  Hypothesis HP : (0 < P)%nat.

  Theorem c06_mapper_is_wf : exists M rows,
    @M6.mapping_matrix ROps mp sz wt P (M6.count_unmasked m) (M6.slim_for_sub m subs) (@M6.sub_fractions ROps subs) = Ok M /\
    @M6.unique_from ROps mp sz wt P subs = Ok rows /\
    forall (c : @convolver ROps) reg, wf_obj c n (@LMapper ROps (enc_of_rows rows) M P reg).
  Proof.
    destruct (P6.entry_formula (M6.count_unmasked m) P mp sz wt (M6.slim_for_sub m subs) (@M6.sub_fractions ROps subs)
                (P6.mapper_arrays_ok m subs P mp sz Hok)) as (M & EM & [HML HMR] & _).
    destruct (P6.unique_encodes_dense m subs P mp sz wt Hok M EM) as (rows & Er & Lr & Hr).
    exists M, rows. split; [exact EM|]. split; [exact Er|]. intros c reg.
    rewrite Hcount in *.
    assert (Hrow : forall d, (d < n)%nat ->
              let '(u, w, k) := nth d rows ([], [], 0%nat) in
              enc_row (enc_of_rows rows) d = map (fun j => (Z.to_nat (nth j u (-1)%Z), nth j w 0)) (seq 0 k) /\
              (forall j, (j < k)%nat -> (0 <= nth j u (-1) < Z.of_nat P)%Z) /\
              (forall p, (p < P)%nat ->
                 sumR (map (fun j => if Z.eqb (nth j u (-1)%Z) (Z.of_nat p) then nth j w 0 else 0) (seq 0 k)) = @M6.mget ROps M d p)).
    { intros d Hd. pose proof (enc_row_of_rows rows d) as HE. specialize (Hr d Hd). rfix.
      destruct (nth d rows ([], [], 0%nat)) as [[u w] k]. cbv beta iota in HE. destruct Hr as (Hk & Hw & _ & Hin & _ & Hsum).
      split; [|split; auto]. rewrite HE.
      rewrite (firstn_combine_seq (map Z.to_nat u) w 0%nat 0 k) by (rewrite ?map_length; auto).
      apply map_ext_in. intros j Hj. apply in_seq in Hj. f_equal.
      change 0%nat with (Z.to_nat (-1)). apply map_nth. }
    assert (HncM : ncols M = P).
    { unfold ncols. destruct M as [|r0 M']; [cbn in HML; lia|]. cbn [hd]. now inversion HMR. }
    assert (HlM : length M = n) by exact HML.
    split; [exact HP|]. split.
    { pose proof (shape_convolve_matrix c M) as Hs. cbn [opmat params]. now rewrite HlM, HncM in Hs. }
    split; [|split; [|split; [|split; [|split]]]].
    - (* enc_ok *)
      intros d pw Hin. destruct (Nat.lt_ge_cases d n) as [Hd|Hd].
      + specialize (Hrow d Hd). destruct (nth d rows ([], [], 0%nat)) as [[u w] k]. destruct Hrow as (HE & Hidx & _).
        rewrite HE in Hin. apply in_map_iff in Hin. destruct Hin as (j & <- & Hj). apply in_seq in Hj. cbn [fst].
        specialize (Hidx j ltac:(lia)). lia.
      + exfalso. pose proof (enc_row_of_rows rows d) as HE. rfix. rewrite nth_overflow in HE by lia. cbv beta iota in HE. rewrite HE in Hin. destruct Hin.
    - (* represents *)
      intros d p Hd Hp. specialize (Hrow d Hd). unfold E. destruct (nth d rows ([], [], 0%nat)) as [[u w] k].
      destruct Hrow as (HE & Hidx & Hsum). rewrite HE.
      rewrite (hits_map p (fun j => Z.to_nat (nth j u (-1)%Z)) (fun j => nth j w 0)).
      transitivity (@M6.mget ROps M d p); [reflexivity|]. rewrite <- (Hsum p Hp). symmetry.
      apply sumR_map_ext. intros j Hj. apply in_seq in Hj. specialize (Hidx j ltac:(lia)).
      destruct (Z.eqb_spec (nth j u (-1)%Z) (Z.of_nat p)) as [Q|Q].
      + rewrite Q, Nat2Z.id, Nat.eqb_refl. reflexivity.
      + destruct (Nat.eqb_spec (Z.to_nat (nth j u (-1)%Z)) p) as [Q'|Q']; [|reflexivity]. exfalso. apply Q. lia.
    - unfold enc_of_rows. cbn [e_dw]. now rewrite map_length.
    - unfold enc_of_rows. cbn [e_du]. now rewrite map_length.
    - exact HlM.
    - exact HncM.
  Qed.
End Bridge.

(* C06 counts the image pixels as the False entries of the mask; C03 / C04 list them: the same number on a rectangular mask *)
Lemma urow_length y x r : length (P3.urow y x r) = length (filter negb r).
Proof. revert x. induction r as [|b t IH]; intros x; [reflexivity|]. destruct b; cbn; rewrite IH; reflexivity. Qed.
Lemma urows_length m : forall y, length (P3.urows y m) = length (filter negb (concat m)).
Proof.
  induction m as [|r t IH]; intros y; [reflexivity|]. cbn [P3.urows concat]. rewrite app_length, filter_app, app_length, urow_length, IH.
  reflexivity.
Qed.
Lemma count_unmasked_is_length m : rectb m = true -> M6.count_unmasked m = length (unmasked m).
Proof. intros R. rewrite (P3.unmasked_urows m R), urows_length. reflexivity. Qed.

(* any mapper described by C06-valid arrays on the dataset's (rectangular) mask is a well-formed C04 mapper object: with it the
   hypothesis wf_obj of the C04 theorems is discharged for the mapper part *)
Theorem c06_mapper_is_wf_on_mask (m : mask) (subs : list nat) (P : nat) (mp : list (list Z)) (sz : list nat) (wt : list (list R)) :
  rectb m = true -> P6.mapper_ok m subs P mp sz -> (0 < length (unmasked m))%nat -> (0 < P)%nat ->
  exists M rows,
    @M6.mapping_matrix ROps mp sz wt P (M6.count_unmasked m) (M6.slim_for_sub m subs) (@M6.sub_fractions ROps subs) = Ok M /\
    @M6.unique_from ROps mp sz wt P subs = Ok rows /\
    forall (c : @convolver ROps) reg, wf_obj c (length (unmasked m)) (@LMapper ROps (enc_of_rows rows) M P reg).
Proof.
  intros R Hok Hn HP. apply (c06_mapper_is_wf m subs P mp sz wt Hok); auto. now apply count_unmasked_is_length.
Qed.
