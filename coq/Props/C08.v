From PAV Require Import Model.C08.
