(* C15s -- Preloads.set_*(fit_0, fit_1): whatever the methods store satisfies the premise of C15's transparency theorems
   (the invariant [consistent] of Proofs/C15.v), for EVERY second fit, every subset / order / repetition of the methods, every
   state of fit_0's inversion (attributes already read or not, own preloads), and fit_0's inversion is left undisturbed. *)
From Coq Require Import List Arith Bool Lia.
From PAV Require Import Base.Res Base.Check Model.C15 Proofs.C15.
Import ListNotations.
Local Open Scope nat_scope.

Section SetProofs.
  Variable T : Type.
  Variable K : kernels T.
  Variable Cm : cmpk T.
  Variable inp0 : input T.
  Variable mode0 : option (wtilde T).
  Notation P0 := (pure K inp0 mode0).
  Notation cons := (consistent K inp0 mode0).

  (* fit_0's inversion: an inversion of class mode0 on inp0 in a state satisfying the invariant (its own preloads consistent,
     every cached value sound) *)
  Definition fit_ok (f : fit T) : Prop := f_inp f = inp0 /\ f_mode f = mode0 /\ Inv K inp0 mode0 (f_st f).

  (* the kernel identities the three short-cut slots rely on (theorems for the C04 kernels: Proofs/C15k.v) *)
  Definition set_laws : Prop :=
    law_dlf K inp0 /\ law_momm K inp0 /\ (has_func inp0 = false -> p_dvm K inp0 mode0 = p_dv K inp0 mode0).
  Hypothesis L : set_laws.

  Lemma with_st_ok f st : fit_ok f -> Inv K inp0 mode0 st -> fit_ok (with_st f st).
  Proof. intros (a & b & _) H. unfold fit_ok. simpl. auto. Qed.
  Lemma run_triple {A} (m : M T A) (Q : A -> pstore T -> Prop) st :
    triple T K inp0 mode0 (TT T) m Q -> Inv K inp0 mode0 st -> Inv K inp0 mode0 (snd (m st)) /\ Q (fst (m st)) (store (snd (m st))).
  Proof. intros H HI. destruct (H st HI I) as (a & _ & c). auto. Qed.
  Lemma fread_ok f q : fit_ok f -> fst (fread K code f q) = P0 q /\ fit_ok (snd (fread K code f q)).
  Proof.
    intros Hf. pose proof Hf as (Hi & Hm & HI). unfold fread. rewrite Hi, Hm.
    destruct (run_triple _ _ (f_st f) (observe_ok T K inp0 mode0 q) HI) as [HI' Hv].
    destruct (observe K code inp0 mode0 q (f_st f)) as [v st]. simpl in *. split; [exact Hv|]. now apply with_st_ok.
  Qed.
  Lemma freads_ok qs : forall f, fit_ok f -> fst (freads K code f qs) = map P0 qs /\ fit_ok (snd (freads K code f qs)).
  Proof.
    induction qs as [|q qs IH]; intros f Hf; simpl; [auto|].
    destruct (fread_ok f q Hf) as [Hv Hf1]. destruct (fread K code f q) as [v f1]. simpl in *.
    destruct (IH f1 Hf1) as [Hvs Hf2]. destruct (freads K code f1 qs) as [vs f2]. simpl in *. now rewrite Hv, Hvs.
  Qed.

  (* ---- consistency of a store is a slot-by-slot property ---- *)
  Lemma cons_put_use_wt o P : cons P -> cons (put_use_wt o P).
  Proof. intro H. exact H. Qed.
  Lemma cons_put_wt o P : cons P -> cons (put_wt o P).
  Proof. intro H. exact H. Qed.
  Lemma cons_put_omm o P : cons P -> (forall m, o = Some m -> m = p_omm K inp0) -> cons (put_omm o P).
  Proof. intros (c1&c2&c3&c4&c5&c6&c7&c8&c9) H. unfold consistent. simpl. refine (conj _ (conj _ (conj _ (conj _ (conj _ (conj _ (conj _ (conj _ _)))))))); try assumption; auto. Qed.
  Lemma cons_put_curv o P : cons P -> (forall m, o = Some m -> m = p_curv K inp0 mode0) -> cons (put_curv o P).
  Proof. intros (c1&c2&c3&c4&c5&c6&c7&c8&c9) H. unfold consistent. simpl. refine (conj _ (conj _ (conj _ (conj _ (conj _ (conj _ (conj _ (conj _ _)))))))); try assumption; auto. Qed.
  Lemma cons_put_reg o P : cons P -> (forall m, o = Some m -> m = p_reg K inp0) -> cons (put_reg o P).
  Proof. intros (c1&c2&c3&c4&c5&c6&c7&c8&c9) H. unfold consistent. simpl. refine (conj _ (conj _ (conj _ (conj _ (conj _ (conj _ (conj _ (conj _ _)))))))); try assumption; auto. Qed.
  Lemma cons_put_ldr o P : cons P -> (forall x, o = Some x -> has_reg inp0 = true -> p_ldr K inp0 = Ok x) -> cons (put_ldr o P).
  Proof. intros (c1&c2&c3&c4&c5&c6&c7&c8&c9) H. unfold consistent. simpl. refine (conj _ (conj _ (conj _ (conj _ (conj _ (conj _ (conj _ (conj _ _)))))))); try assumption; auto. Qed.
  Lemma cons_put_lf o P : cons P -> (forall l, o = Some l -> l = lf_fresh K inp0) -> cons (put_lf o P).
  Proof. intros (c1&c2&c3&c4&c5&c6&c7&c8&c9) H. unfold consistent. simpl. refine (conj _ (conj _ (conj _ (conj _ (conj _ (conj _ (conj _ (conj _ _)))))))); try assumption; auto. Qed.
  Lemma cons_put_dlf o P : cons P -> (forall l, o = Some l -> l = dlf_of K inp0 (lf_fresh K inp0) /\ law_dlf K inp0) -> cons (put_dlf o P).
  Proof. intros (c1&c2&c3&c4&c5&c6&c7&c8&c9) H. unfold consistent. simpl. refine (conj _ (conj _ (conj _ (conj _ (conj _ (conj _ (conj _ (conj _ _)))))))); try assumption; intros l Hl; now apply H. Qed.
  Lemma cons_put_momm o P : cons P -> (forall l, o = Some l -> l = momm_fresh K inp0 /\ law_momm K inp0) -> cons (put_momm o P).
  Proof. intros (c1&c2&c3&c4&c5&c6&c7&c8&c9) H. unfold consistent. simpl. refine (conj _ (conj _ (conj _ (conj _ (conj _ (conj _ (conj _ (conj _ _)))))))); try assumption; intros l Hl; now apply H. Qed.
  Definition dvm_good (v : vec T) : Prop :=
    (mode0 = None -> has_func inp0 = false -> v = p_dv K inp0 mode0) /\
    (forall w, mode0 = Some w -> apply_vws K v (dvW K inp0) = p_dv K inp0 mode0).
  Lemma cons_put_dvm o P : cons P -> (forall v, o = Some v -> dvm_good v) -> cons (put_dvm o P).
  Proof. intros (c1&c2&c3&c4&c5&c6&c7&c8&c9) H. unfold consistent. simpl. refine (conj _ (conj _ (conj _ (conj _ (conj _ (conj _ (conj _ (conj _ _)))))))); try assumption; intros v Hv; now apply (H v). Qed.
  Lemma cons_put_cmd o P : cons P ->
    (forall m w, o = Some m -> mode0 = Some w -> apply_mws K m (cmdW K inp0 w) = p_pre K inp0 w) -> cons (put_cmd o P).
  Proof. intros (c1&c2&c3&c4&c5&c6&c7&c8&c9) H. unfold consistent. simpl. refine (conj _ (conj _ (conj _ (conj _ (conj _ (conj _ (conj _ (conj _ _)))))))); try assumption; auto. Qed.
  Ltac none := intros ? Hx; discriminate Hx.

  (* ---- the three properties that are not cached attributes ---- *)
  Lemma dvm_prop_ok f : fit_ok f ->
    (forall v, fst (dvm_prop K f) = Some v -> dvm_good v) /\ fit_ok (snd (dvm_prop K f)).
  Proof.
    intros Hf. pose proof Hf as (Hi & Hm & HI). destruct L as (_ & _ & Ldv). unfold dvm_prop. rewrite Hi.
    destruct (f_mode f) as [w|] eqn:Ef.
    - assert (Em : mode0 = Some w) by congruence.
      destruct (run_triple _ _ (f_st f) (dvm_ref_wt_ok T K inp0 mode0 w Em) HI) as [HI' Hr].
      destruct (dvm_ref_wt K inp0 (f_st f)) as [r st]. simpl in *. split; [|now apply with_st_ok].
      intros v Hv. injection Hv as <-. split; [intro X; congruence|]. intros w' Hw'.
      destruct Hr as [->|[-> Hs]]; simpl.
      + unfold dvW. destruct (has_func inp0) eqn:Eh; [unfold p_dv; now rewrite Em, Eh|]. simpl. now apply Ldv.
      + destruct (s_dvm (store st)) as [cur|] eqn:Ec; [|discriminate].
        destruct HI' as [(_&_&_&_&_&_&_&Hcd&_) _]. now apply (proj2 (Hcd _ Ec) w').
    - assert (Em : mode0 = None) by congruence. simpl. split; [|exact Hf]. intros v Hv. split; [|intros w' X; congruence].
      intros _ Eh. destruct (s_dvm (store (f_st f))) as [cur|] eqn:Ec.
      + injection Hv as <-. destruct HI as [(_&_&_&_&_&_&_&Hcd&_) _]. now apply (proj1 (Hcd _ Ec)).
      + destruct (has_mapper inp0); [|discriminate]. injection Hv as <-.
        rewrite <- (Ldv Eh). unfold p_dvm. now rewrite Em.
  Qed.
  Lemma cmd_prop_ok f m w : fit_ok f -> cmd_prop K f = Ok (Some m) -> mode0 = Some w ->
    apply_mws K m (cmdW K inp0 w) = p_pre K inp0 w.
  Proof.
    intros (Hi & Hm & HI) Hc Em. unfold cmd_prop in Hc. rewrite Hi, Hm, Em in Hc.
    destruct (run_triple _ _ (f_st f) (cmd_ref_ok T K inp0 mode0 w Em) HI) as [_ [_ Hr]].
    destruct (cmd_ref K inp0 w (f_st f)) as [r st]. simpl in *. injection Hc as <-. exact Hr.
  Qed.
  Lemma rekey_full {A B} (keys : list A) (vals : list B) : length vals = length keys -> rekey keys vals = vals.
  Proof. intro H. unfold rekey. rewrite <- H. apply firstn_all. Qed.
  Lemma dlf_prop_ok f : fit_ok f ->
    fst (dlf_prop K code f) = dlf_of K inp0 (lf_fresh K inp0) /\ fit_ok (snd (dlf_prop K code f)).
  Proof.
    intros Hf. pose proof Hf as (Hi & Hm & HI). unfold dlf_prop. rewrite Hi.
    destruct (s_dlf (store (f_st f))) as [l|] eqn:El.
    - simpl. split; [|exact Hf]. destruct HI as [(_&_&_&_&_&Hd&_) _]. destruct (Hd _ El) as [-> _].
      apply rekey_full. unfold dlf_of, lf_fresh, funcs. now rewrite !map_length.
    - destruct (fread_ok f QLf Hf) as [Hv Hf1]. destruct (fread K code f QLf) as [lf f1]. simpl in *. split; [|exact Hf1].
      now rewrite Hv.
  Qed.

  (* ---- one method ---- *)
  Theorem run_setter_ok s P f0 f1 : fit_ok f0 -> cons P ->
    cons (snd (fst (fst (run_setter K code Cm s P f0 f1)))) /\ fit_ok (snd (fst (run_setter K code Cm s P f0 f1))).
  Proof.
    intros Hf HP. pose proof Hf as (Hi & Hm & HI). destruct L as (Ldl & Lmo & Ldv).
    destruct s; unfold run_setter; rewrite ?Hi.
    - (* set_w_tilde_imaging *)
      destruct (negb (has_mapper inp0)); simpl; [split; [exact HP|exact Hf]|].
      destruct (c_close_v Cm (n inp0) (n (f_inp f1))); simpl; (split; [exact HP|exact Hf]).
    - (* set_operated_mapping_matrix_with_preloads *)
      destruct (fread_ok f0 QOmm Hf) as [Hv Hf1]. destruct (fread K code f0 QOmm) as [b0 f0a]. simpl in Hv, Hf1.
      destruct (fread K code f1 QOmm) as [b1 f1a].
      destruct (Nat.eqb (ncols (as_m b0)) (ncols (as_m b1)) && c_close_m Cm (as_m b0) (as_m b1)); simpl; (split; [|exact Hf1]).
      + apply cons_put_omm; [apply cons_put_omm; [exact HP|none]|]. intros m Hx. injection Hx as <-. now rewrite Hv.
      + apply cons_put_omm; [exact HP|none].
    - (* set_linear_func_inversion_dicts *)
      destruct (negb (has_mapper inp0) || negb (has_func inp0)); simpl; [split; [apply cons_put_lf; [exact HP|none]|exact Hf]|].
      destruct (fread_ok f0 QLf Hf) as [Hv Hf1]. destruct (fread K code f0 QLf) as [l0 f0a]. simpl in Hv, Hf1.
      destruct (fread K code f1 QLf) as [l1 f1a].
      match goal with |- context [if ?c then _ else _] => destruct c end; simpl.
      + destruct (dlf_prop_ok f0a Hf1) as [Hd Hf2]. destruct (dlf_prop K code f0a) as [dl f0b]. simpl in *. split; [|exact Hf2].
        apply cons_put_dlf; [apply cons_put_lf; [apply cons_put_lf; [exact HP|none]|]|].
        * intros l Hx. injection Hx as <-. now rewrite Hv.
        * intros l Hx. injection Hx as <-. now split.
      + split; [apply cons_put_lf; [exact HP|none]|exact Hf1].
    - (* set_curvature_matrix *)
      set (P1 := put_momm None (put_cmd None (put_dvm None (put_curv None P)))).
      assert (HP1 : cons P1).
      { unfold P1. apply cons_put_momm; [|none]. apply cons_put_cmd; [|intros ? ? Hx; discriminate Hx].
        apply cons_put_dvm; [|none]. apply cons_put_curv; [exact HP|none]. }
      destruct (cmd_prop K f0) as [c0|e] eqn:Ec0; [|simpl; split; [exact HP1|exact Hf]].
      destruct (fread_ok f0 QCurv Hf) as [Hv Hf1]. destruct (fread K code f0 QCurv) as [F0 f0a]. simpl in Hv, Hf1.
      destruct (fread K code f1 QCurv) as [F1 f1a].
      destruct (same_shape (as_m F0) (as_m F1)); [|simpl; split; [exact HP1|exact Hf1]].
      destruct (c_close_m Cm (as_m F0) (as_m F1)).
      + simpl. split; [|exact Hf1]. apply cons_put_curv; [exact HP1|]. intros m Hx. injection Hx as <-. now rewrite Hv.
      + destruct c0 as [m0|]; [|simpl; split; [exact HP1|exact Hf1]].
        destruct (cmd_prop K f1a) as [c1|e]; [|simpl; split; [exact HP1|exact Hf1]].
        match goal with |- context [if ?c then _ else _] => destruct c end; [|simpl; split; [exact HP1|exact Hf1]].
        destruct (fread_ok f0a QMomm Hf1) as [Hmo Hf2]. destruct (fread K code f0a QMomm) as [mo f0b]. simpl in Hmo, Hf2.
        destruct (dvm_prop_ok f0b Hf2) as [Hdv Hf3]. destruct (dvm_prop K f0b) as [dv f0c]. simpl in *. split; [|exact Hf3].
        apply cons_put_cmd; [apply cons_put_dvm; [apply cons_put_momm; [exact HP1|]|]|].
        * intros l Hx. injection Hx as <-. rewrite Hmo. now split.
        * intros v Hx. apply Hdv. exact Hx.
        * intros m w Hx Em. injection Hx as <-. now apply (cmd_prop_ok f0 m0 w Hf Ec0 Em).
    - (* set_regularization_matrix_and_term *)
      set (P1 := put_ldr None (put_reg None P)).
      assert (HP1 : cons P1) by (unfold P1; apply cons_put_ldr; [apply cons_put_reg; [exact HP|none]|intros ? Hx; discriminate Hx]).
      destruct (negb (has_mapper inp0)); [simpl; split; [exact HP1|exact Hf]|].
      destruct (fread_ok f0 QLdr Hf) as [Hv Hf1]. destruct (fread K code f0 QLdr) as [l0 f0a]. simpl in Hv, Hf1.
      destruct (as_rt l0) as [x0|e] eqn:E0; [|simpl; split; [exact HP1|exact Hf1]].
      destruct (fread K code f1 QLdr) as [l1 f1a].
      destruct (as_rt l1) as [x1|e]; [|simpl; split; [exact HP1|exact Hf1]].
      destruct (c_close_t Cm x0 x1); [|simpl; split; [exact HP1|exact Hf1]].
      destruct (fread_ok f0a QReg Hf1) as [Hr Hf2]. destruct (fread K code f0a QReg) as [H f0b]. simpl in *. split; [|exact Hf2].
      apply cons_put_ldr; [apply cons_put_reg; [exact HP1|]|].
      + intros m Hx. injection Hx as <-. now rewrite Hr.
      + intros x Hx _. injection Hx as <-. rewrite Hv in E0. simpl in E0. exact E0.
  Qed.

  (* ---- any sequence of the methods ---- *)
  Theorem run_setters_ok ss : forall P f0 f1, fit_ok f0 -> cons P ->
    cons (snd (fst (fst (run_setters K code Cm ss P f0 f1)))) /\ fit_ok (snd (fst (run_setters K code Cm ss P f0 f1))).
  Proof.
    induction ss as [|s ss IH]; intros P f0 f1 Hf HP; simpl; [auto|].
    destruct (run_setter_ok s P f0 f1 Hf HP) as [HP1 Hf1].
    destruct (run_setter K code Cm s P f0 f1) as [[[r P1] f0a] f1a]. simpl in *.
    destruct (IH P1 f0a f1a Hf1 HP1) as [HP2 Hf2].
    destruct (run_setters K code Cm ss P1 f0a f1a) as [[[rs P2] f0b] f1b]. simpl in *. auto.
  Qed.
End SetProofs.

Arguments fit_ok {T} K inp0 mode0 f.
Arguments set_laws {T} K inp0 mode0.

(* ---- the statements exported to Props/C15.v ---- *)
Section SetTop.
  Variable T : Type.
  Variable K : kernels T.
  Variable Cm : cmpk T.

  (* a fit's inversion as the factory builds it, then any attributes read from it *)
  Lemma make_fit_ok inp own f : make_fit K inp own = Ok f -> consistent K inp (f_mode f) own ->
    f_inp f = inp /\ make_inversion K inp own = Ok (f_mode f) /\ fit_ok K inp (f_mode f) f.
  Proof.
    unfold make_fit. destruct (make_inversion K inp own) as [mode|e] eqn:E; [|discriminate]. intro H. injection H as <-. simpl.
    intro Hc. split; [reflexivity|]. split; [reflexivity|]. split; [reflexivity|]. split; [reflexivity|].
    split; [exact Hc|]. intros q c H. discriminate.
  Qed.

  (* Whatever Preloads.set_* store -- any second fit, any methods in any order, any attributes of fit_0's inversion read
     beforehand, fit_0's inversion built with its own (consistent) preloads -- satisfies the invariant under which every later
     inversion on fit_0's inputs returns the specification values; fit_0's inversion keeps returning them too. *)
  Theorem set_preloads_fresh inp0 own0 f0 f1 reads0 ss P :
    make_fit K inp0 own0 = Ok f0 -> consistent K inp0 (f_mode f0) own0 -> set_laws K inp0 (f_mode f0) ->
    consistent K inp0 (f_mode f0) P ->
    let f0a := snd (freads K code f0 reads0) in
    let r := run_setters K code Cm ss P f0a f1 in
    let P' := snd (fst (fst r)) in
    consistent K inp0 (f_mode f0) P' /\
    (forall reads1, fst (freads K code (snd (fst r)) reads1) = map (pure K inp0 (f_mode f0)) reads1) /\
    (forall h, make_inversion K inp0 P' = Ok (f_mode f0) ->
               fst (run_history K inp0 code P' h) = map (fun qs => Ok (map (pure K inp0 (f_mode f0)) qs)) h).
  Proof.
    intros Hmk Hown HL HP f0a r P'. destruct (make_fit_ok inp0 own0 f0 Hmk Hown) as (_ & _ & Hf0).
    destruct (freads_ok T K inp0 (f_mode f0) reads0 f0 Hf0) as [_ Hf0a]. fold f0a in Hf0a.
    destruct (run_setters_ok T K Cm inp0 (f_mode f0) HL ss P f0a f1 Hf0a HP) as [HP' Hf']. fold r in HP', Hf'. fold P' in HP'.
    split; [exact HP'|]. split.
    - intros reads1. exact (proj1 (freads_ok T K inp0 (f_mode f0) reads1 _ Hf')).
    - intros h Hm. exact (proj1 (run_history_ok T K inp0 (f_mode f0) h P' Hm HP')).
  Qed.
End SetTop.

(* ---- non-vacuity: the toy instance of Proofs/C15.v (one regularized mapper, mapping class): the hypotheses of
   [set_preloads_fresh] hold and the methods do fill slots ---- *)
From Coq Require Import ZArith.
Section SetToy.
  Local Open Scope Z_scope.
  Definition zcmp : cmpk Z :=
    {| c_close_v := list_eqb Z.eqb; c_close_m := list_eqb (list_eqb Z.eqb); c_close_t := Z.eqb |}.
  Definition fitB : fit Z :=
    {| f_inp := inpB; f_mode := None; f_st := {| cache := empty_cache Z; store := empty_store |} |}.
  Lemma set_toy_hyps :
    make_fit zk inpB empty_store = Ok fitB /\ consistent zk inpB (f_mode fitB) empty_store /\
    set_laws zk inpB (f_mode fitB) /\
    (let P' := snd (fst (fst (run_setters zk code zcmp [SetWt; SetOmm; SetLf; SetCurv; SetReg] empty_store
                                           (snd (freads zk code fitB [QCurv])) fitB))) in
     s_curv P' = Some [[1]] /\ s_omm P' = Some [[1]; [1]] /\ s_reg P' = Some [[1]] /\ s_ldr P' = Some 9 /\
     s_use_wt P' = Some true /\ s_dvm P' = None /\ make_inversion zk inpB P' = Ok None).
  Proof.
    split; [reflexivity|]. split; [apply empty_consistent|]. split.
    - split; [apply zk_law_dlf|]. split; [apply zk_law_momm|]. intros _. reflexivity.
    - vm_compute. repeat split; reflexivity.
  Qed.
End SetToy.
