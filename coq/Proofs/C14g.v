(* C14 -- part 7: output geometry of the zoom routines (Mask2D.mask_centre, zoom_centre, zoom_offset_*,
   zoom_mask_unmasked, the mask of Array2D.zoomed_around_mask): the window is centred on the unmasked bounding box and
   every pixel of the zoomed frame carries the scaled coordinate it had in the original frame. *)
From Coq Require Import ZArith List Bool Lia Reals Lra.
From PAV Require Import Base.Res Base.Check Base.NumOps Model.C14 Model.C14g Proofs.C14 Proofs.C14b Proofs.C14c Proofs.C14d.
Import ListNotations.

(* ------------------------------------------------------------------ the grid is the image of the coordinate list *)
Lemma grid_is_map_coords {O : NumOps} (m : list (list bool)) (g : @geom O) :
  grid_slim_via_mask m g =
  map (fun p => pixel_centre_code (nrows m) (ncols m) g (fst p) (snd p)) (unmasked_coords m).
Proof.
  unfold grid_slim_via_mask, unmasked_coords. cbv zeta. rewrite map_flat_map. apply flat_map_ext. intros y.
  rewrite map_flat_map. apply flat_map_ext. intros x. destruct (get2 true m y x); reflexivity.
Qed.

Lemma fold_sel {X Y} (sel : Y -> Y -> Y) (zsel : X -> X -> X) (f : X -> Y) :
  (forall a b, sel (f a) (f b) = f (zsel a b)) -> forall l d, fold_left sel (map f l) (f d) = f (fold_left zsel l d).
Proof. intros HS. induction l as [|h t IH]; intros d; cbn [map fold_left]; [reflexivity|]. rewrite HS. apply IH. Qed.

(* ------------------------------------------------------------------ np.amin / np.amax attain their value *)
Local Open Scope Z_scope.
Lemma zmin_in l : forall d, zmin_list d l = d \/ In (zmin_list d l) l.
Proof.
  unfold zmin_list. induction l as [|h t IH]; intros d; cbn [fold_left]; [left; reflexivity|].
  destruct (IH (Z.min d h)) as [E | E]; [|right; right; exact E].
  rewrite E. destruct (Z.min_spec d h) as [[_ ->] | [_ ->]]; [left; reflexivity | right; left; reflexivity].
Qed.
Lemma zmax_in l : forall d, zmax_list d l = d \/ In (zmax_list d l) l.
Proof.
  unfold zmax_list. induction l as [|h t IH]; intros d; cbn [fold_left]; [left; reflexivity|].
  destruct (IH (Z.max d h)) as [E | E]; [|right; right; exact E].
  rewrite E. destruct (Z.max_spec d h) as [[_ ->] | [_ ->]]; [right; left; reflexivity | left; reflexivity].
Qed.

Lemma in_map_fst_ex {X Y} (l : list (X * Y)) a : In a (map fst l) -> exists b, In (a, b) l.
Proof. intros HI. apply in_map_iff in HI. destruct HI as ([a' b] & E & HI). cbn in E. subst. now exists b. Qed.
Lemma in_map_snd_ex {X Y} (l : list (X * Y)) b : In b (map snd l) -> exists a, In (a, b) l.
Proof. intros HI. apply in_map_iff in HI. destruct HI as ([a b'] & E & HI). cbn in E. subst. now exists a. Qed.

(* the executable bounding box is THE bounding box *)
Lemma bbox_is_bbox (m : list (list bool)) a0 a1 b0 b1 : bbox m = Some (a0, a1, b0, b1) -> is_bbox m a0 a1 b0 b1.
Proof.
  unfold bbox, is_bbox. destruct (unmasked_coords m) as [|[yy xx] rest]; [discriminate|]. cbn [fst snd].
  intros E. inversion E. subst. clear E.
  destruct (zmin_le (map fst rest) yy) as [A1 A2]. destruct (zmin_le (map snd rest) xx) as [B1 B2].
  destruct (zmax_ge (map fst rest) yy) as [A3 A4]. destruct (zmax_ge (map snd rest) xx) as [B3 B4].
  repeat split.
  - destruct (zmin_in (map fst rest) yy) as [-> | HI]; [exists xx; left; reflexivity|].
    destruct (in_map_fst_ex _ _ HI) as (b & Hb). exists b. right. exact Hb.
  - destruct (zmax_in (map fst rest) yy) as [-> | HI]; [exists xx; left; reflexivity|].
    destruct (in_map_fst_ex _ _ HI) as (b & Hb). exists b. right. exact Hb.
  - destruct (zmin_in (map snd rest) xx) as [-> | HI]; [exists yy; left; reflexivity|].
    destruct (in_map_snd_ex _ _ HI) as (b & Hb). exists b. right. exact Hb.
  - destruct (zmax_in (map snd rest) xx) as [-> | HI]; [exists yy; left; reflexivity|].
    destruct (in_map_snd_ex _ _ HI) as (b & Hb). exists b. right. exact Hb.
  - destruct H as [<- | Hp]; cbn [fst]; [lia|]. apply A2. now apply in_map.
  - destruct H as [<- | Hp]; cbn [fst]; [lia|]. apply A4. now apply in_map.
  - destruct H as [<- | Hp]; cbn [snd]; [lia|]. apply B2. now apply in_map.
  - destruct H as [<- | Hp]; cbn [snd]; [lia|]. apply B4. now apply in_map.
Qed.
Lemma is_bbox_unique (m : list (list bool)) a0 a1 b0 b1 c0 c1 d0 d1 :
  is_bbox m a0 a1 b0 b1 -> is_bbox m c0 c1 d0 d1 -> (a0, a1, b0, b1) = (c0, c1, d0, d1).
Proof.
  intros ((x1 & I1) & (x2 & I2) & (x3 & I3) & (x4 & I4) & HA) ((y1 & J1) & (y2 & J2) & (y3 & J3) & (y4 & J4) & HB).
  pose proof (HB _ I1) as P1. pose proof (HB _ I2) as P2. pose proof (HB _ I3) as P3. pose proof (HB _ I4) as P4.
  pose proof (HA _ J1) as Q1. pose proof (HA _ J2) as Q2. pose proof (HA _ J3) as Q3. pose proof (HA _ J4) as Q4.
  cbn [fst snd] in *. repeat f_equal; lia.
Qed.

(* Mask2D.zoom_region is centred on the bounding box: it grows the shorter side by int(diff / 2) at BOTH ends *)
Lemma zoom_region_centred (m : list (list bool)) y0 y1 x0 x1 :
  zoom_region m = Ok (y0, y1, x0, x1) ->
  exists a0 a1 b0 b1, bbox m = Some (a0, a1, b0, b1) /\
    y0 + (y1 - 1) = a0 + a1 /\ x0 + (x1 - 1) = b0 + b1 /\ y0 <= a0 /\ a1 < y1 /\ x0 <= b0 /\ b1 < x1 /\
    (* the longer side is kept, the shorter one is grown to it (or to one less) *)
    Z.max (a1 - a0) (b1 - b0) - 1 <= y1 - 1 - y0 <= Z.max (a1 - a0) (b1 - b0) /\
    Z.max (a1 - a0) (b1 - b0) - 1 <= x1 - 1 - x0 <= Z.max (a1 - a0) (b1 - b0).
Proof.
  unfold zoom_region, bbox. destruct (unmasked_coords m) as [|[yy xx] rest]; [discriminate|]. cbn [fst snd].
  set (a0 := zmin_list yy (map fst rest)). set (b0 := zmin_list xx (map snd rest)).
  set (a1 := zmax_list yy (map fst rest)). set (b1 := zmax_list xx (map snd rest)).
  destruct (zmin_le (map fst rest) yy) as [A1 _]. destruct (zmin_le (map snd rest) xx) as [B1 _].
  destruct (zmax_ge (map fst rest) yy) as [A3 _]. destruct (zmax_ge (map snd rest) xx) as [B3 _].
  fold a0 in A1. fold b0 in B1. fold a1 in A3. fold b1 in B3.
  cbv zeta. exists a0, a1, b0, b1. split; [reflexivity|].
  destruct (Z.gtb_spec (a1 - a0) (b1 - b0)) as [G1|G1].
  - rewrite int_half_div in H by lia. inversion H. subst. clear H. repeat split; zdiv.
  - destruct (Z.gtb_spec (b1 - b0) (a1 - a0)) as [G2|G2].
    + rewrite int_half_div in H by lia. inversion H. subst. clear H. repeat split; zdiv.
    + inversion H. subst. clear H. repeat split; lia.
Qed.
Local Close Scope Z_scope.

(* ------------------------------------------------------------------ running max / min of a monotone image (R) *)
Local Open Scope R_scope.
Notation rmaxl := (@maxl ROps). Notation rminl := (@minl ROps).

Lemma tmax_inc (f : Z -> R) : (forall a b, (a <= b)%Z -> f a <= f b) -> forall a b, @tmax ROps (f a) (f b) = f (Z.max a b).
Proof.
  intros HM a b. unfold tmax. cbn [leb ROps]. destruct (Rleb (f a) (f b)) eqn:E.
  - apply Rleb_true in E. destruct (Z.max_spec a b) as [[_ ->] | [HL ->]]; [reflexivity|]. pose proof (HM b a HL). lra.
  - apply Rleb_false in E. destruct (Z.max_spec a b) as [[HL ->] | [_ ->]]; [|reflexivity]. pose proof (HM a b ltac:(lia)). lra.
Qed.
Lemma tmin_inc (f : Z -> R) : (forall a b, (a <= b)%Z -> f a <= f b) -> forall a b, @tmin ROps (f a) (f b) = f (Z.min a b).
Proof.
  intros HM a b. unfold tmin. cbn [leb ROps]. destruct (Rleb (f a) (f b)) eqn:E.
  - apply Rleb_true in E. destruct (Z.min_spec a b) as [[_ ->] | [HL ->]]; [reflexivity|]. pose proof (HM b a HL). lra.
  - apply Rleb_false in E. destruct (Z.min_spec a b) as [[HL ->] | [_ ->]]; [|reflexivity]. pose proof (HM a b ltac:(lia)). lra.
Qed.
Lemma tmax_dec (f : Z -> R) : (forall a b, (a <= b)%Z -> f b <= f a) -> forall a b, @tmax ROps (f a) (f b) = f (Z.min a b).
Proof.
  intros HM a b. unfold tmax. cbn [leb ROps]. destruct (Rleb (f a) (f b)) eqn:E.
  - apply Rleb_true in E. destruct (Z.min_spec a b) as [[HL ->] | [_ ->]]; [|reflexivity]. pose proof (HM a b ltac:(lia)). lra.
  - apply Rleb_false in E. destruct (Z.min_spec a b) as [[_ ->] | [HL ->]]; [reflexivity|]. pose proof (HM b a HL). lra.
Qed.
Lemma tmin_dec (f : Z -> R) : (forall a b, (a <= b)%Z -> f b <= f a) -> forall a b, @tmin ROps (f a) (f b) = f (Z.max a b).
Proof.
  intros HM a b. unfold tmin. cbn [leb ROps]. destruct (Rleb (f a) (f b)) eqn:E.
  - apply Rleb_true in E. destruct (Z.max_spec a b) as [[HL ->] | [_ ->]]; [|reflexivity]. pose proof (HM a b ltac:(lia)). lra.
  - apply Rleb_false in E. destruct (Z.max_spec a b) as [[_ ->] | [HL ->]]; [reflexivity|]. pose proof (HM b a HL). lra.
Qed.

(* max + min of an affine image = image of the smallest + image of the largest index, whatever the sign of the slope *)
Lemma maxl_minl_affine (a s : R) (d : Z) (l : list Z) :
  let f := fun i : Z => a + IZR i * s in
  rmaxl (f d) (map f l) + rminl (f d) (map f l) = f (zmin_list d l) + f (zmax_list d l).
Proof.
  cbv zeta. set (f := fun i : Z => a + IZR i * s). unfold maxl, minl, zmin_list, zmax_list.
  destruct (Rle_or_lt 0 s) as [HS | HS].
  - assert (HM : forall x y, (x <= y)%Z -> f x <= f y) by (intros x y Hxy; unfold f; apply IZR_le in Hxy; nra).
    rewrite (fold_sel _ Z.max f (tmax_inc f HM)), (fold_sel _ Z.min f (tmin_inc f HM)). lra.
  - assert (HM : forall x y, (x <= y)%Z -> f y <= f x) by (intros x y Hxy; unfold f; apply IZR_le in Hxy; nra).
    rewrite (fold_sel _ Z.min f (tmax_dec f HM)), (fold_sel _ Z.max f (tmin_dec f HM)). lra.
Qed.

(* ------------------------------------------------------------------ Mask2D.mask_centre *)
Lemma mask_centre_formula (m : list (list bool)) sy sx oy ox yy xx rest :
  unmasked_coords m = (yy, xx) :: rest -> sy <> 0 -> sx <> 0 ->
  @mask_centre ROps m (sy, sx, oy, ox) =
  Ok (@point_spec2 ROps (nrows m) (ncols m) (sy, sx, oy, ox)
        (zmin_list yy (map fst rest) + zmax_list yy (map fst rest)) (zmin_list xx (map snd rest) + zmax_list xx (map snd rest))).
Proof.
  intros HU Hy Hx. unfold mask_centre. rewrite grid_is_map_coords, HU. cbn [map grid_centre fst snd].
  set (H := nrows m). set (W := ncols m).
  set (cy := IZR (H - 1) / 2 + oy / sy). set (cx := IZR (W - 1) / 2 - ox / sx).
  set (fy := fun i : Z => cy * sy + IZR i * (- sy)). set (fx := fun j : Z => (- cx * sx) + IZR j * sx).
  assert (EY : forall y x, fst (@pixel_centre_code ROps H W (sy, sx, oy, ox) y x) = fy y).
  { intros y x. unfold pixel_centre_code, central_scaled, two, fy, cy. cbn [T add sub mul div opp ofZ ROps fst snd]. ring. }
  assert (EX : forall y x, snd (@pixel_centre_code ROps H W (sy, sx, oy, ox) y x) = fx x).
  { intros y x. unfold pixel_centre_code, central_scaled, two, fx, cx. cbn [T add sub mul div opp ofZ ROps fst snd]. ring. }
  rewrite !map_map.
  rewrite (map_ext (fun p : Z * Z => fst (@pixel_centre_code ROps H W (sy, sx, oy, ox) (fst p) (snd p))) (fun p => fy (fst p)))
    by (intros p; apply EY).
  rewrite (map_ext (fun p : Z * Z => snd (@pixel_centre_code ROps H W (sy, sx, oy, ox) (fst p) (snd p))) (fun p => fx (snd p)))
    by (intros p; apply EX).
  rewrite EY, EX. rewrite <- (map_map fst fy), <- (map_map snd fx).
  cbn [T add sub mul div opp ofZ ROps two].
  pose proof (maxl_minl_affine (cy * sy) (- sy) yy (map fst rest)) as SY. cbv zeta in SY. fold fy in SY.
  pose proof (maxl_minl_affine (- cx * sx) sx xx (map snd rest)) as SX. cbv zeta in SX. fold fx in SX.
  rewrite SY, SX. unfold point_spec2, two. cbn [T add sub mul div opp ofZ ROps].
  unfold fy, fx, cy, cx. rewrite !plus_IZR. f_equal. f_equal; field; assumption.
Qed.

(* ------------------------------------------------------------------ Mask2D.zoom_centre and the offsets *)
Lemma zoom_centre_formula (m : list (list bool)) sy sx oy ox yy xx rest :
  unmasked_coords m = (yy, xx) :: rest -> sy <> 0 -> sx <> 0 ->
  @zoom_centre ROps m (sy, sx, oy, ox) =
  Ok (IZR (zmin_list yy (map fst rest) + zmax_list yy (map fst rest)) / 2,
      IZR (zmin_list xx (map snd rest) + zmax_list xx (map snd rest)) / 2).
Proof.
  intros HU Hy Hx. unfold zoom_centre. rewrite grid_is_map_coords, HU. unfold grid_pixels. cbn [map fst snd].
  set (H := nrows m). set (W := ncols m).
  set (f := fun i : Z => / 2 + IZR i * 1).
  assert (EY : forall y x, @add ROps (@add ROps (@div ROps (@opp ROps (fst (@pixel_centre_code ROps H W (sy, sx, oy, ox) y x))) sy)
                                               (fst (@central_scaled ROps H W (sy, sx, oy, ox)))) (@half ROps) = f y).
  { intros y x. unfold pixel_centre_code, central_scaled, half, one, two, f. cbn [T add sub mul div opp ofZ ROps fst snd]. field. assumption. }
  assert (EX : forall y x, @add ROps (@add ROps (@div ROps (snd (@pixel_centre_code ROps H W (sy, sx, oy, ox) y x)) sx)
                                               (snd (@central_scaled ROps H W (sy, sx, oy, ox)))) (@half ROps) = f x).
  { intros y x. unfold pixel_centre_code, central_scaled, half, one, two, f. cbn [T add sub mul div opp ofZ ROps fst snd]. field. assumption. }
  rewrite !map_map. cbn [fst snd].
  rewrite (map_ext _ (fun p : Z * Z => f (fst p))) by (intros p; apply EY).
  rewrite (map_ext (fun p : Z * Z => @add ROps (@add ROps (@div ROps (snd (@pixel_centre_code ROps H W (sy, sx, oy, ox) (fst p) (snd p))) sx)
                                       (snd (@central_scaled ROps H W (sy, sx, oy, ox)))) (@half ROps)) (fun p => f (snd p)))
    by (intros p; apply EX).
  rewrite EY, EX. rewrite <- (map_map fst f), <- (map_map snd f).
  cbn [T add sub mul div opp ofZ ROps two one].
  pose proof (maxl_minl_affine (/ 2) 1 yy (map fst rest)) as SY. cbv zeta in SY. fold f in SY.
  pose proof (maxl_minl_affine (/ 2) 1 xx (map snd rest)) as SX. cbv zeta in SX. fold f in SX.
  rewrite SY, SX. unfold f. rewrite !plus_IZR. f_equal. f_equal; field.
Qed.

(* everything the zoom properties of a mask return, in terms of its zoom region *)
Section ZoomGeometry.
  Variables (m : list (list bool)) (sy sx oy ox : R) (y0 y1 x0 x1 : Z).
  Hypothesis EZ : zoom_region m = Ok (y0, y1, x0, x1).
  Hypothesis Hy : sy <> 0.
  Hypothesis Hx : sx <> 0.
  Let g : @geom ROps := (sy, sx, oy, ox).
  Let H := nrows m.
  Let W := ncols m.

  Lemma region_coords : exists yy xx rest, unmasked_coords m = (yy, xx) :: rest /\
    (y0 + (y1 - 1) = zmin_list yy (map fst rest) + zmax_list yy (map fst rest))%Z /\
    (x0 + (x1 - 1) = zmin_list xx (map snd rest) + zmax_list xx (map snd rest))%Z.
  Proof.
    destruct (zoom_region_centred m _ _ _ _ EZ) as (a0 & a1 & b0 & b1 & EB & S0 & S1 & _).
    unfold bbox in EB. destruct (unmasked_coords m) as [|[yy xx] rest]; [discriminate|]. cbn [fst snd] in EB.
    inversion EB. subst. exists yy, xx, rest. repeat split; assumption.
  Qed.

  (* the centre of the unmasked grid is the centre of the zoom region = centre of the unmasked bounding box *)
  Lemma mask_centre_region : @mask_centre ROps m g = Ok (@point_spec2 ROps H W g (y0 + (y1 - 1)) (x0 + (x1 - 1))).
  Proof.
    destruct region_coords as (yy & xx & rest & HU & S0 & S1). rewrite S0, S1.
    exact (mask_centre_formula m sy sx oy ox yy xx rest HU Hy Hx).
  Qed.

  Lemma zoom_centre_region : @zoom_centre ROps m g = Ok (IZR (y0 + (y1 - 1)) / 2, IZR (x0 + (x1 - 1)) / 2).
  Proof.
    destruct region_coords as (yy & xx & rest & HU & S0 & S1). rewrite S0, S1.
    exact (zoom_centre_formula m sy sx oy ox yy xx rest HU Hy Hx).
  Qed.

  Lemma zoom_offset_pixels_region :
    @zoom_offset_pixels ROps m g = Ok (IZR (y0 + (y1 - 1)) / 2 - IZR (H - 1) / 2, IZR (x0 + (x1 - 1)) / 2 - IZR (W - 1) / 2).
  Proof. unfold zoom_offset_pixels. rewrite zoom_centre_region. reflexivity. Qed.

  Lemma zoom_offset_scaled_region :
    @zoom_offset_scaled ROps m g =
    Ok (- sy * (IZR (y0 + (y1 - 1)) / 2 - IZR (H - 1) / 2), sx * (IZR (x0 + (x1 - 1)) / 2 - IZR (W - 1) / 2)).
  Proof. unfold zoom_offset_scaled, g. fold g. rewrite zoom_offset_pixels_region. reflexivity. Qed.

  (* the origin given to zoom_mask_unmasked (origin + zoom_offset_scaled) is mask_centre, the origin given to the
     mask of zoomed_around_mask *)
  Lemma zoom_mask_unmasked_region :
    @zoom_mask_unmasked ROps m g =
    Ok ((y1 - y0, x1 - x0)%Z, (sy, sx, fst (@point_spec2 ROps H W g (y0 + (y1 - 1)) (x0 + (x1 - 1))),
                                        snd (@point_spec2 ROps H W g (y0 + (y1 - 1)) (x0 + (x1 - 1))))).
  Proof.
    unfold zoom_mask_unmasked, g. fold g. unfold zoom_shape_native. rewrite EZ. cbn [bind]. rewrite zoom_offset_scaled_region.
    cbn [bind fst snd]. unfold point_spec2, g, two. cbn [T add sub mul div opp ofZ ROps fst snd]. do 3 f_equal; [f_equal|]; lra.
  Qed.

  Lemma zoomed_geometry_region b : (0 <= (y1 - y0) + 2 * b)%Z -> (0 <= (x1 - x0) + 2 * b)%Z ->
    @zoomed_geometry ROps m g b =
    Ok (((y1 - y0) + 2 * b, (x1 - x0) + 2 * b)%Z,
        (sy, sx, fst (@point_spec2 ROps H W g (y0 + (y1 - 1)) (x0 + (x1 - 1))),
                 snd (@point_spec2 ROps H W g (y0 + (y1 - 1)) (x0 + (x1 - 1))))).
  Proof.
    intros N0 N1. unfold zoomed_geometry, g. fold g. rewrite EZ. cbn [bind].
    assert (E0 : ((y1 + b - (y0 - b) <? 0) || (x1 + b - (x0 - b) <? 0))%Z = false)
      by (apply orb_false_iff; split; apply Z.ltb_ge; lia).
    rewrite E0, mask_centre_region. cbn [bind]. do 3 f_equal; lia.
  Qed.
  Lemma zoomed_geometry_raises b : ((y1 - y0) + 2 * b < 0 \/ (x1 - x0) + 2 * b < 0)%Z ->
    @zoomed_geometry ROps m g b = Raise OtherException.
  Proof.
    intros HN. unfold zoomed_geometry, g. fold g. rewrite EZ. cbn [bind].
    assert (E0 : ((y1 + b - (y0 - b) <? 0) || (x1 + b - (x0 - b) <? 0))%Z = true)
      by (apply orb_true_iff; destruct HN; [left|right]; apply Z.ltb_lt; lia).
    rewrite E0. reflexivity.
  Qed.

  (* MAIN: a frame of shape (y1 - y0 + 2b, x1 - x0 + 2b) with the pixel scales of the mask and origin mask_centre
     gives pixel (i, j) the coordinate that pixel (y0 - b + i, x0 - b + j) has in the original frame: for EVERY buffer *)
  Lemma zoomed_frame_keeps_coordinates b i j :
    let g' : @geom ROps := (sy, sx, fst (@point_spec2 ROps H W g (y0 + (y1 - 1)) (x0 + (x1 - 1))),
                                    snd (@point_spec2 ROps H W g (y0 + (y1 - 1)) (x0 + (x1 - 1)))) in
    @pixel_centre_spec ROps ((y1 - y0) + 2 * b) ((x1 - x0) + 2 * b) g' i j
    = @pixel_centre_spec ROps H W g (y0 - b + i) (x0 - b + j).
  Proof.
    cbv zeta. unfold pixel_centre_spec, point_spec2, g, two. cbn [T add sub mul div opp ofZ ROps fst snd].
    rewrite ?minus_IZR, ?plus_IZR, ?mult_IZR, ?minus_IZR, ?plus_IZR, ?mult_IZR, ?minus_IZR, ?plus_IZR, ?mult_IZR, ?minus_IZR.
    f_equal; field.
  Qed.
End ZoomGeometry.

(* all masked: every zoom quantity raises (np.amin / np.max of an empty array) *)
Lemma zoom_geometry_all_masked {O : NumOps} (m : list (list bool)) (g : @geom O) b :
  unmasked_coords m = [] ->
  mask_centre m g = Raise OtherException /\ zoom_centre m g = Raise OtherException /\
  zoom_offset_pixels m g = Raise OtherException /\ zoom_offset_scaled m g = Raise OtherException /\
  zoom_mask_unmasked m g = Raise OtherException /\ zoomed_geometry m g b = Raise OtherException.
Proof.
  intros HU. assert (EC : zoom_centre m g = Raise OtherException).
  { unfold zoom_centre. rewrite grid_is_map_coords, HU. destruct g as [[[sy sx] oy] ox]. reflexivity. }
  assert (EM : mask_centre m g = Raise OtherException) by (unfold mask_centre; rewrite grid_is_map_coords, HU; reflexivity).
  assert (EP : zoom_offset_pixels m g = Raise OtherException) by (unfold zoom_offset_pixels; rewrite EC; reflexivity).
  assert (ES : zoom_offset_scaled m g = Raise OtherException)
    by (unfold zoom_offset_scaled; destruct g as [[[sy sx] oy] ox]; rewrite EP; reflexivity).
  repeat split; try assumption.
  - unfold zoom_mask_unmasked, zoom_shape_native. destruct g as [[[sy sx] oy] ox]. rewrite (zoom_region_all_masked _ HU). reflexivity.
  - unfold zoomed_geometry. destruct g as [[[sy sx] oy] ox]. rewrite (zoom_region_all_masked _ HU). reflexivity.
Qed.
