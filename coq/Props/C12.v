(* C12 -- All geometry is covariant under translation of the coordinate origin.  Statements only.
   Numbers are Coq's reals ([ROps]); [d] is an arbitrary real vector.  [padd p d] = p + d, [shift d g] adds d to every
   point of a grid, [oshift] / [rshift] / [option_map (translate d)] do the same under option / result / for the origin
   of a returned mask, [ext_shift d] moves an extent (x by snd d, y by fst d).  [translate d M] is the mask M (same
   boolean array, same pixel scales) with origin + d.  The definitions on the left are the executable model of the code
   (coq/Model/C12.v), call site by call site; the [rel_...] functions never mention an origin.
   Hypotheses: pixel scales non-zero (the code divides the origin by them); positive where a derived pixel scale must be
   non-zero (overlay).  Index-valued statements need no hypothesis at all. *)
From Coq Require Import ZArith QArith List Bool Reals Lra.
From PAV Require Import Base.Res Base.NumOps Model.C12 Proofs.C12 Proofs.C12Reloc Proofs.C12Spec Proofs.C12Edge Proofs.C12OneD.
From PAV Require Model.C10.
Import ListNotations.
Local Open Scope R_scope.

(* util layer: pixel coordinates / indices of correspondingly translated points do not move (no hypothesis) *)
Theorem C12_pixel_indices_invariant :
  (forall H W (ps o d p : @pt ROps),
  pixel_coordinates H W ps (padd o d) (padd p d) = pixel_coordinates H W ps o p) /\
  (forall H W (ps o d p : @pt ROps),
  grid_pixels H W ps (padd o d) (padd p d) = grid_pixels H W ps o p) /\
  (forall H W (ps o d p : @pt ROps),
  grid_pixel_centres H W ps (padd o d) (padd p d) = grid_pixel_centres H W ps o p) /\
  (forall H W (ps o d p : @pt ROps),
  grid_pixel_indexes H W ps (padd o d) (padd p d) = grid_pixel_indexes H W ps o p).
Proof. exact (conj pixel_coordinates_invariant (conj grid_pixels_invariant (conj grid_pixel_centres_invariant grid_pixel_indexes_invariant))). Qed.

(* ... and depend only on the position relative to the origin *)
Theorem C12_pixel_indices_relative :
  (forall H W (ps o p : @pt ROps),
  pixel_coordinates H W ps o p = rel_pixel H W ps (psub p o)) /\
  (forall H W (ps o p : @pt ROps),
  grid_pixel_centres H W ps o p = rel_pixel H W ps (psub p o)) /\
  (forall H W (ps o p : @pt ROps),
  grid_pixels H W ps o p = rel_pixel_float H W ps (psub p o)).
Proof. exact (conj pixel_coordinates_spec (conj grid_pixel_centres_spec grid_pixels_spec)). Qed.

(* util layer: pixel -> scaled conversions move by exactly d *)
Theorem C12_coordinate_conversions_translate :
  (forall (ps : @pt ROps), fst ps <> 0 -> snd ps <> 0 -> forall H W o d q,
  scaled_coordinates H W ps (padd o d) q = padd (scaled_coordinates H W ps o q) d) /\
  (forall (ps : @pt ROps), fst ps <> 0 -> snd ps <> 0 -> forall H W o d q,
  grid_scaled_of_pixels H W ps (padd o d) q = padd (grid_scaled_of_pixels H W ps o q) d).
Proof. exact (conj x_scaled_coordinates_translates x_grid_scaled_of_pixels_translates). Qed.

(* util layer: pixel-centre and over-sampled grids move by exactly d *)
Theorem C12_pixel_centre_grids_translate :
  (forall (ps : @pt ROps), fst ps <> 0 -> snd ps <> 0 -> forall m o d,
  grid_via_mask m ps (padd o d) = shift d (grid_via_mask m ps o)) /\
  (forall (ps : @pt ROps), fst ps <> 0 -> snd ps <> 0 -> forall H W o d,
  grid_via_shape H W ps (padd o d) = shift d (grid_via_shape H W ps o)) /\
  (forall (ps : @pt ROps), fst ps <> 0 -> snd ps <> 0 -> forall m o d subs,
  over_sampled m ps (padd o d) subs = shift d (over_sampled m ps o subs)).
Proof. exact (conj x_grid_via_mask_translates (conj x_grid_via_shape_translates x_over_sampled_translates)). Qed.

Theorem C12_extent_translates : forall H W (ps o d : @pt ROps),
  extent H W ps (padd o d) = ext_shift d (extent H W ps o).
Proof. exact extent_translates. Qed.

(* centre of a grid ((max+min)/2) moves by d, its interior size does not change *)
Theorem C12_grid_centre_and_interior :
  (forall (d : @pt ROps) g, grid_centre (shift d g) = oshift d (grid_centre g)) /\
  (forall (d : @pt ROps) g, interior (shift d g) = interior g).
Proof. exact (conj grid_centre_shift interior_shift). Qed.

(* "only positions relative to the origin": model = origin-free closed formula + origin *)
Theorem C12_relative_forms :
  (forall (ps : @pt ROps), fst ps <> 0 -> snd ps <> 0 -> forall m o,
  grid_via_mask m ps o = shift o (rel_grid m ps)) /\
  (forall (ps : @pt ROps), fst ps <> 0 -> snd ps <> 0 -> forall m o subs,
  over_sampled m ps o subs = shift o (rel_over m ps subs)) /\
  (forall H W (ps o : @pt ROps), extent H W ps o = ext_shift o (rel_extent H W ps)) /\
  (forall (ps : @pt ROps), fst ps <> 0 -> snd ps <> 0 -> forall H W o q,
  scaled_coordinates H W ps o q = padd (rel_of_pixel_centre H W ps q) o) /\
  (forall (ps : @pt ROps), fst ps <> 0 -> snd ps <> 0 -> forall H W o q,
  grid_scaled_of_pixels H W ps o q = padd (rel_of_pixel H W ps q) o) /\
  (forall (M : @mask2d ROps), fst (mps M) <> 0 -> snd (mps M) <> 0 ->
  from_mask M = shift (morg M) (rel_grid (mk M) (mps M))).
Proof. exact (conj x_grid_via_mask_spec (conj x_over_sampled_spec (conj extent_spec (conj x_scaled_coordinates_spec (conj x_grid_scaled_of_pixels_spec x_from_mask_spec))))). Qed.

(* derive_mask.{all_false, edge, border, blurring_from, edge_buffed}, Mask2D.resized_from / rescaled_from: any function [f] of
   the boolean array; the derived mask carries the parent's pixel scales and origin *)
Theorem C12_derived_masks_keep_the_frame :
  (forall (f : mask -> mask) (d : @pt ROps) (M : @mask2d ROps), derive_mask f (translate d M) = translate d (derive_mask f M)) /\
  (forall (d : @pt ROps) (M : @mask2d ROps) kh kw, padded_mask (translate d M) kh kw = translate d (padded_mask M kh kw)) /\
  (forall (d : @pt ROps) (M : @mask2d ROps) ih iw, trimmed_array_mask (translate d M) ih iw = translate d (trimmed_array_mask M ih iw)).
Proof. exact (conj derive_mask_commutes (conj padded_mask_translates trimmed_array_mask_translates)). Qed.

(* call sites: Grid2D.from_mask, derive_grid.all_false, derive_grid.edge/border ([sel] = any index list computed from the boolean
   array), blurring_grid_from ([bl] = any function of the boolean array), padded_grid_from, over_sampled_grid / sub_grid *)
Theorem C12_mask_grids_translate :
  (forall (M : @mask2d ROps), fst (mps M) <> 0 -> snd (mps M) <> 0 -> forall d,
  from_mask (translate d M) = shift d (from_mask M)) /\
  (forall (M : @mask2d ROps), fst (mps M) <> 0 -> snd (mps M) <> 0 -> forall d,
  derive_grid_all_false (translate d M) = shift d (derive_grid_all_false M)) /\
  (forall (M : @mask2d ROps), fst (mps M) <> 0 -> snd (mps M) <> 0 ->
  forall (sel : mask -> list nat) d, Forall (fun i => (i < length (from_mask M))%nat) (sel (mk M)) ->
  derive_grid_sel sel (translate d M) = shift d (derive_grid_sel sel M)) /\
  (forall (M : @mask2d ROps), fst (mps M) <> 0 -> snd (mps M) <> 0 ->
  forall (bl : mask -> mask) d, blurring_grid_from bl (translate d M) = shift d (blurring_grid_from bl M)) /\
  (forall (M : @mask2d ROps), fst (mps M) <> 0 -> snd (mps M) <> 0 -> forall d kh kw,
  padded_grid_from (translate d M) kh kw = shift d (padded_grid_from M kh kw)) /\
  (forall (M : @mask2d ROps), fst (mps M) <> 0 -> snd (mps M) <> 0 -> forall d subs,
  over_sampled_grid (translate d M) subs = shift d (over_sampled_grid M subs)).
Proof. exact (conj x_from_mask_translates (conj x_derive_grid_all_false_translates (conj x_derive_grid_sel_translates (conj x_blurring_grid_from_translates (conj x_padded_grid_from_translates x_over_sampled_grid_translates))))). Qed.

(* Grid2D.subtracted_from(offset): the re-based grid and its mask (origin - offset) *)
Theorem C12_subtracted_from_translates : forall (M : @mask2d ROps), fst (mps M) <> 0 -> snd (mps M) <> 0 -> forall d off,
  subtracted_mask (translate d M) off = translate d (subtracted_mask M off) /\
  subtracted_grid (translate d M) off = shift d (subtracted_grid M off).
Proof. exact x_subtracted_from_translates. Qed.

Theorem C12_mask_centre_and_extent_translate :
  (forall (M : @mask2d ROps), fst (mps M) <> 0 -> snd (mps M) <> 0 -> forall d,
  mask_centre (translate d M) = oshift d (mask_centre M)) /\
  (forall (d : @pt ROps) (M : @mask2d ROps),
  mask_extent (translate d M) = ext_shift d (mask_extent M)).
Proof. exact (conj x_mask_centre_translates mask_extent_translates). Qed.

(* zoom: pixel-valued quantities do not move, the zoomed masks' origins move by d *)
Theorem C12_zoom :
  (forall (M : @mask2d ROps), fst (mps M) <> 0 -> snd (mps M) <> 0 -> forall d,
  zoom_centre (translate d M) = zoom_centre M) /\
  (forall (M : @mask2d ROps), fst (mps M) <> 0 -> snd (mps M) <> 0 -> forall d,
  zoom_offset_pixels (translate d M) = zoom_offset_pixels M) /\
  (forall (M : @mask2d ROps), fst (mps M) <> 0 -> snd (mps M) <> 0 -> forall d,
  zoom_offset_scaled (translate d M) = zoom_offset_scaled M) /\
  (forall (M : @mask2d ROps), fst (mps M) <> 0 -> snd (mps M) <> 0 -> forall d,
  zoom_mask_unmasked (translate d M) = option_map (translate d) (zoom_mask_unmasked M)) /\
  (forall (M : @mask2d ROps), fst (mps M) <> 0 -> snd (mps M) <> 0 -> forall d b,
  zoomed_around_mask (translate d M) b = option_map (translate d) (zoomed_around_mask M b)).
Proof. exact (conj x_zoom_centre_invariant (conj x_zoom_offset_pixels_invariant (conj x_zoom_offset_scaled_invariant (conj x_zoom_mask_unmasked_translates x_zoomed_around_mask_translates)))). Qed.

(* radial projection (centre translated too; angle 0): points move by d, their number does not change *)
Theorem C12_radial_projection :
  (forall (d : @pt ROps) (M : @mask2d ROps) (c : @pt ROps) shape_slim remove_centre,
  radial_projected_from (translate d M) (padd c d) shape_slim remove_centre
  = shift d (radial_projected_from M c shape_slim remove_centre)) /\
  (forall (d : @pt ROps) (M : @mask2d ROps) (c : @pt ROps) shape_slim,
  radial_shape (mask_extent (translate d M)) (padd c d) (mps M) shape_slim = radial_shape (mask_extent M) c (mps M) shape_slim).
Proof. exact (conj radial_projected_from_translates radial_shape_from_invariant). Qed.

(* image meshes *)
Theorem C12_overlay_mesh_translates : forall (M : @mask2d ROps) (d : @pt ROps) sy sx,
  0 < fst (mps M) -> 0 < snd (mps M) -> (0 < sy)%Z -> (0 < sx)%Z ->
  overlay (translate d M) sy sx = rshift d (overlay M sy sx).
Proof. exact x_overlay_translates. Qed.

Theorem C12_hilbert_geometry_translates :
  (forall (M : @mask2d ROps), fst (mps M) <> 0 -> snd (mps M) <> 0 -> forall d n,
  hilbert_image_grid (translate d M) n = shift d (hilbert_image_grid M n)) /\
  (forall (d : @pt ROps) (M : @mask2d ROps) curve radius,
  hilbert_curve_grid (translate d M) curve radius = shift d (hilbert_curve_grid M curve radius)).
Proof. exact (conj x_hilbert_image_grid_translates hilbert_curve_grid_translates). Qed.

(* rectangular mesh overlaid on a translated grid: same pixel scales, origin + d, mesh grid + d, identical index table *)
Theorem C12_rect_mesh_and_mapper :
  (forall sy sx (g : list (@pt ROps)) (b : R) (d : @pt ROps),
  rect_overlay_grid sy sx (shift d g) b =
  option_map (fun r => {| r_shape := r_shape r; r_ps := r_ps r; r_org := padd (r_org r) d |}) (rect_overlay_grid sy sx g b)) /\
  (forall (r : @rmesh ROps) (d : @pt ROps), fst (r_ps r) <> 0 -> snd (r_ps r) <> 0 ->
  rect_mesh_grid {| r_shape := r_shape r; r_ps := r_ps r; r_org := padd (r_org r) d |} = shift d (rect_mesh_grid r)) /\
  (forall sy sx (g : list (@pt ROps)) (b : R) (d : @pt ROps),
  rect_mapper sy sx (shift d g) b = rect_mapper sy sx g b).
Proof. exact (conj rect_overlay_grid_translates (conj x_rect_mesh_grid_translates rect_mapper_invariant)). Qed.

(* datasets: the returned data / noise map keep the frame ([timaging d] translates both masks of a dataset) *)
Theorem C12_datasets_keep_the_frame :
  (forall pad (d : @pt ROps) ds ds' (M : @mask2d ROps),
  apply_mask pad ds' (translate d M) = timaging d (apply_mask pad ds M)) /\
  (forall (d : @pt ROps) ds,
  apply_noise_scaling (timaging d ds) = timaging d (apply_noise_scaling ds)) /\
  (forall rz (d : @pt ROps) ds, trimmed rz (timaging d ds) = timaging d (trimmed rz ds)) /\
  (forall (d : @pt ROps) (image : @mask2d ROps) p,
  simulate (translate d image) p = timaging d (simulate image p)) /\
  (forall (d : @pt ROps) (data : @mask2d ROps),
  s2n_limited (translate d data) = translate d (s2n_limited data)) /\
  (forall (d : @pt ROps) (ds : @imaging ROps), fst (mps (i_data ds)) <> 0 -> snd (mps (i_data ds)) <> 0 ->
  from_mask (translate d (i_data ds)) = shift d (dataset_grid ds)).
Proof. exact (conj apply_mask_translates (conj apply_noise_scaling_translates (conj trimmed_translates (conj simulate_translates (conj s2n_limited_translates x_dataset_grid_translates))))). Qed.

(* border relocation (relocated_grid_via_jit_from; BorderRelocator.relocated_grid_from takes the border from the grid itself by
   index): relocating a translated grid against the translated border gives the translated result *)
Theorem C12_relocation_translates :
  (forall (d : @pt ROps) (g bg : list (@pt ROps)), relocate (shift d g) (shift d bg) = shift d (relocate g bg)) /\
  (forall (d : @pt ROps) (idx : list nat) (g : list (@pt ROps)), Forall (fun i => (i < length g)%nat) idx ->
     relocated_grid_from idx (shift d g) = shift d (relocated_grid_from idx g)).
Proof. exact (conj relocate_translates relocated_grid_from_translates). Qed.

(* ================================================================ "model = origin-free form + origin" for the remaining entry points *)
(* mask_centre and the zoom quantities: the centre of the bounding box of the unmasked pixels ([rel_box_centre] in scaled units,
   [rel_zoom_centre] in pixel units; neither mentions an origin); the zoomed masks sit at origin + that centre.
   The first two clauses need no hypothesis: centre and interior size of the origin-free pixel-centre grid itself. *)
Theorem C12_mask_centre_and_zoom_relative_forms :
  (forall m (ps : @pt ROps), grid_centre (rel_grid m ps) = rel_box_centre m ps) /\
  (forall m (ps : @pt ROps), 0 < fst ps -> 0 < snd ps ->
  interior (rel_grid m ps) =
  match bbox m with Some (y0, y1, x0, x1) => Some (IZR (y1 - y0) * fst ps, IZR (x1 - x0) * snd ps) | None => None end) /\
  (forall (M : @mask2d ROps), fst (mps M) <> 0 -> snd (mps M) <> 0 ->
  mask_centre M = oshift (morg M) (rel_box_centre (mk M) (mps M))) /\
  (forall (M : @mask2d ROps), fst (mps M) <> 0 -> snd (mps M) <> 0 ->
  zoom_centre M = rel_zoom_centre (mk M)) /\
  (forall (M : @mask2d ROps), fst (mps M) <> 0 -> snd (mps M) <> 0 ->
  zoom_offset_pixels M = option_map (fun z => psub z (centre_px (rows (mk M)) (cols (mk M)))) (rel_zoom_centre (mk M))) /\
  (forall (M : @mask2d ROps), fst (mps M) <> 0 -> snd (mps M) <> 0 ->
  zoom_offset_scaled M = rel_box_centre (mk M) (mps M)) /\
  (forall (M : @mask2d ROps), fst (mps M) <> 0 -> snd (mps M) <> 0 ->
  zoom_mask_unmasked M =
  match zoom_shape (mk M), rel_box_centre (mk M) (mps M) with
  | Some s, Some c => Some (m_all_false (fst s) (snd s) (mps M) (padd (morg M) c))
  | _, _ => None
  end) /\
  (forall (M : @mask2d ROps), fst (mps M) <> 0 -> snd (mps M) <> 0 -> forall b,
  zoomed_around_mask M b =
  match zoom_region (mk M), rel_box_centre (mk M) (mps M) with
  | Some (y0, y1, x0, x1), Some c => Some (m_all_false ((y1 + b) - (y0 - b)) ((x1 + b) - (x0 - b)) (mps M) (padd c (morg M)))
  | _, _ => None
  end).
Proof. exact (conj grid_centre_rel_grid (conj x_interior_rel_grid (conj x_mask_centre_spec (conj x_zoom_centre_spec (conj x_zoom_offset_pixels_spec (conj x_zoom_offset_scaled_spec (conj x_zoom_mask_unmasked_spec x_zoomed_around_mask_spec))))))). Qed.

(* the Overlay image mesh: overlay grid laid on the bounding box, pixels looked up by position relative to the origin *)
Theorem C12_overlay_mesh_relative_form : forall (M : @mask2d ROps), 0 < fst (mps M) -> 0 < snd (mps M) ->
  forall sy sx, (0 < sy)%Z -> (0 < sx)%Z ->
  overlay M sy sx = rshift (morg M) (rel_overlay (mk M) (mps M) sy sx).
Proof. exact x_overlay_spec. Qed.

(* the rectangular mesh / MapperRectangular: the index table is a function of the positions relative to the mesh box (no
   hypothesis), so it is the same for every common translation of the grid; the mesh grid = origin-free grid + mesh origin *)
Theorem C12_rect_mapper_relative_form :
  (forall sy sx (g : list (@pt ROps)) (b : R), rect_mapper sy sx g b = rel_rect_mapper sy sx g b) /\
  (forall sy sx (g : list (@pt ROps)) (b : R) (d : @pt ROps), rel_rect_mapper sy sx (shift d g) b = rel_rect_mapper sy sx g b) /\
  (forall (r : @rmesh ROps), fst (r_ps r) <> 0 -> snd (r_ps r) <> 0 ->
  rect_mesh_grid r = shift (r_org r) (rel_grid (all_false (fst (r_shape r)) (snd (r_shape r))) (r_ps r))).
Proof. exact (conj rect_mapper_spec (conj rel_rect_mapper_invariant x_rect_mesh_grid_spec)). Qed.

(* the Hilbert mesh geometry: the radius cut sqrt(y^2 + x^2) <= r is the sqrt-free test (0 <= r and y^2 + x^2 <= r^2) on the
   origin-free curve; the kept points and the interpolation grid are origin-free forms + origin *)
Theorem C12_hilbert_relative_forms :
  (forall (curve : list (@pt ROps)) (r : R), hilbert_cut curve r = rel_hilbert_cut curve r) /\
  (forall (M : @mask2d ROps) curve r, hilbert_curve_grid M curve r = shift (morg M) (rel_hilbert_cut curve r)) /\
  (forall (M : @mask2d ROps), fst (mps M) <> 0 -> snd (mps M) <> 0 -> forall n,
  hilbert_image_grid M n = shift (morg M) (rel_grid (all_false n n) (mps M))).
Proof. exact (conj hilbert_cut_spec (conj hilbert_curve_grid_spec x_hilbert_image_grid_spec)). Qed.

(* radial projection at ANY angle, the angle given as the pair cssn = (cos theta, sin theta):
   (1) the points move by d when mask and centre are translated by d -- whatever the pair is (no hypothesis);
   (2) angle 0 (pair (1, 0)) is the model of C12_radial_projection;
   (3, 4) for positive pixel scales the projection is the origin-free form + origin;
   (5) if cos^2 + sin^2 = 1, the i-th point of that form lies on the ray of the angle at distance i * step from the centre. *)
Theorem C12_radial_projection_any_angle :
  (forall (cssn d : @pt ROps) (M : @mask2d ROps) (c : @pt ROps) shape_slim remove_centre,
  radial_projected_from_a cssn (translate d M) (padd c d) shape_slim remove_centre
  = shift d (radial_projected_from_a cssn M c shape_slim remove_centre)) /\
  (forall (e : @ext ROps) (c ps : @pt ROps) shape_slim remove_centre,
  radial_projected_a ((1, 0) : @pt ROps) e c ps shape_slim remove_centre = radial_projected e c ps shape_slim remove_centre) /\
  (forall (M : @mask2d ROps), 0 < fst (mps M) -> 0 < snd (mps M) -> forall (cssn c : @pt ROps) shape_slim remove_centre,
  radial_projected_from_a cssn M c shape_slim remove_centre
  = shift (morg M) (rel_radial_a cssn (rows (mk M)) (cols (mk M)) (mps M) (psub c (morg M)) shape_slim remove_centre)) /\
  (forall (M : @mask2d ROps), 0 < fst (mps M) -> 0 < snd (mps M) -> forall (c : @pt ROps) shape_slim remove_centre,
  radial_projected_from M c shape_slim remove_centre
  = shift (morg M) (rel_radial (rows (mk M)) (cols (mk M)) (mps M) (psub c (morg M)) shape_slim remove_centre)) /\
  (forall (cssn : @pt ROps) H W (ps r : @pt ROps) shape_slim remove_centre p, 0 < fst ps -> 0 < snd ps ->
  fst cssn * fst cssn + snd cssn * snd cssn = 1 ->
  In p (rel_radial_a cssn H W ps r shape_slim remove_centre) ->
  exists i, (0 <= i)%Z /\
    p = (fst r + IZR i * snd (rel_radial_scale H W ps r) * snd cssn, snd r + IZR i * snd (rel_radial_scale H W ps r) * fst cssn) /\
    radius r p = IZR i * snd (rel_radial_scale H W ps r)).
Proof. exact (conj radial_projected_from_a_translates (conj radial_projected_a_angle0 (conj x_radial_projected_from_a_spec (conj x_radial_projected_from_spec x_rel_radial_a_points)))). Qed.

(* BorderRelocator.sub_border_grid = sub_grid[sub_border_slim] (any sub-size map, uniform or not; any index list within the
   sub-grid) moves by d and is a selection from the origin-free over-sampled grid + origin; relocated_mesh_grid_from relocates a
   translated mesh against the border of the translated data grid to the translated result *)
Theorem C12_border_views_translate :
  (forall (M : @mask2d ROps), fst (mps M) <> 0 -> snd (mps M) <> 0 -> forall d subs idx,
  Forall (fun i => (i < length (over_sampled_grid M subs))%nat) idx ->
  sub_border_grid (translate d M) subs idx = shift d (sub_border_grid M subs idx)) /\
  (forall (M : @mask2d ROps), fst (mps M) <> 0 -> snd (mps M) <> 0 -> forall subs idx,
  sub_border_grid M subs idx = gather zpt (shift (morg M) (rel_over (mk M) (mps M) subs)) idx) /\
  (forall (d : @pt ROps) (idx : list nat) (g mesh : list (@pt ROps)), Forall (fun i => (i < length g)%nat) idx ->
  relocated_mesh_grid_from idx (shift d g) (shift d mesh) = shift d (relocated_mesh_grid_from idx g mesh)).
Proof. exact (conj x_sub_border_grid_translates (conj x_sub_border_grid_spec relocated_mesh_grid_from_translates)). Qed.

(* derive_grid.edge / derive_grid.border with the index lists of C10's models of edge_1d_indexes_from / border_slim_indexes_from
   ([edge_sel] / [border_sel] = those lists as naturals): for rectangular masks C10's slim order IS the double loop of C12's
   model, every index is in range (C10_edge_sound, C10_border_membership), so the index hypothesis of C12_mask_grids_translate is
   discharged; any selection is a selection from the origin-free grid + origin *)
Theorem C12_edge_and_border_grids_translate :
  (forall m : mask, Model.C10.rectb m = true -> unmasked m = Model.C10.unmasked_pixels m) /\
  (forall (d : @pt ROps) (M : @mask2d ROps), Model.C10.rectb (mk M) = true -> fst (mps M) <> 0 -> snd (mps M) <> 0 ->
  derive_grid_sel edge_sel (translate d M) = shift d (derive_grid_sel edge_sel M)) /\
  (forall (d : @pt ROps) (M : @mask2d ROps), Model.C10.rectb (mk M) = true -> fst (mps M) <> 0 -> snd (mps M) <> 0 ->
  derive_grid_sel border_sel (translate d M) = shift d (derive_grid_sel border_sel M)) /\
  (forall (sel : mask -> list nat) (M : @mask2d ROps), fst (mps M) <> 0 -> snd (mps M) <> 0 ->
  derive_grid_sel sel M = gather zpt (shift (morg M) (rel_grid (mk M) (mps M))) (sel (mk M))).
Proof. exact (conj unmasked_is_C10 (conj derive_grid_edge_translates (conj derive_grid_border_translates derive_grid_sel_spec))). Qed.

(* the remaining grid-valued call sites: with C12_relative_forms and the theorems above, EVERY grid-valued entry point of the model
   equals an origin-free closed form + origin (the subtracted grid also is the pixel-centre grid of its own re-based mask) *)
Theorem C12_call_site_relative_forms :
  (forall (M : @mask2d ROps), fst (mps M) <> 0 -> snd (mps M) <> 0 ->
  derive_grid_all_false M = shift (morg M) (rel_grid (all_false (rows (mk M)) (cols (mk M))) (mps M))) /\
  (forall (M : @mask2d ROps), fst (mps M) <> 0 -> snd (mps M) <> 0 -> forall bl : mask -> mask,
  blurring_grid_from bl M = shift (morg M) (rel_grid (bl (mk M)) (mps M))) /\
  (forall (M : @mask2d ROps), fst (mps M) <> 0 -> snd (mps M) <> 0 -> forall kh kw,
  padded_grid_from M kh kw = shift (morg M) (rel_grid (all_false (rows (mk M) + kh - 1) (cols (mk M) + kw - 1)) (mps M))) /\
  (forall (M : @mask2d ROps), fst (mps M) <> 0 -> snd (mps M) <> 0 -> forall off,
  subtracted_grid M off = shift (psub (morg M) off) (rel_grid (mk M) (mps M)) /\ subtracted_grid M off = from_mask (subtracted_mask M off)) /\
  (forall (ds : @imaging ROps), fst (mps (i_data ds)) <> 0 -> snd (mps (i_data ds)) <> 0 ->
  dataset_grid ds = shift (morg (i_data ds)) (rel_grid (mk (i_data ds)) (mps (i_data ds)))).
Proof. exact (conj x_derive_grid_all_false_spec (conj x_blurring_grid_from_spec (conj x_padded_grid_from_spec (conj x_subtracted_grid_spec x_dataset_grid_spec)))). Qed.

(* the seven call sites as they were before the repairs (fixes/C12_*.diff, now committed in /repo): each violates the law
   with origin (0,0), d = (1,0) *)
Theorem C12_dropped_origin_call_sites_refuted :
  (exists (M : @mask2d QOps) (d : @pt QOps) kh kw,
  padded_grid_from_dropped (translate d M) kh kw <> shift d (padded_grid_from_dropped M kh kw)) /\
  (exists (M : @mask2d ROps) (d : @pt ROps) kh kw,
  padded_grid_from_dropped (translate d M) kh kw <> shift d (padded_grid_from_dropped M kh kw)) /\
  (exists (M : @mask2d QOps) (d : @pt QOps),
  zoom_mask_unmasked_dropped (translate d M) <> option_map (translate d) (zoom_mask_unmasked_dropped M)) /\
  (exists (M : @mask2d QOps) (d : @pt QOps) sy sx,
  overlay_dropped (translate d M) sy sx <> rshift d (overlay_dropped M sy sx)) /\
  (exists (M : @mask2d QOps) (d : @pt QOps) n,
  hilbert_image_grid_dropped (translate d M) n <> shift d (hilbert_image_grid_dropped M n)) /\
  (exists (M : @mask2d ROps) (d : @pt ROps) curve r,
  hilbert_curve_grid_dropped (translate d M) curve r <> shift d (hilbert_curve_grid_dropped M curve r)) /\
  (exists ds : @imaging QOps,
  apply_noise_scaling_dropped (tq ds) <> tq (apply_noise_scaling_dropped ds)) /\
  (exists (image : @mask2d QOps) p,
  simulate_dropped (translate dq image) p <> tq (simulate_dropped image p)) /\
  (exists (data : @mask2d ROps) (d : @pt ROps),
  s2n_limited_dropped (translate d data) <> translate d (s2n_limited_dropped data)).
Proof. exact (conj padded_grid_from_dropped_refuted (conj padded_grid_from_dropped_refuted_R (conj zoom_mask_unmasked_dropped_refuted (conj overlay_dropped_refuted (conj hilbert_image_grid_dropped_refuted (conj hilbert_curve_grid_dropped_refuted_R (conj apply_noise_scaling_dropped_refuted (conj simulate_dropped_refuted s2n_limited_dropped_refuted_R)))))))). Qed.

(* ---------------------------------------------------------------- non-vacuity *)
(* non-zero / positive pixel scales, a non-square mask with a hole and an outer-ring pixel, a non-zero origin and d:
   the executable model at exact rationals satisfies the translation law with non-trivial values *)
Example C12_hyps_satisfiable :
  let m := [[false; true; true; false]; [true; false; true; true]; [true; true; false; false]] in
  let M : @mask2d QOps := mkM m (1 # 2, 3 # 2)%Q (1 # 4, - 3 # 8)%Q in
  let d : @pt QOps := (5 # 8, - 9 # 8)%Q in
  from_mask (translate d M) = shift d (from_mask M) /\
  from_mask M = [(3 # 4, - 21 # 8); (3 # 4, 15 # 8); (1 # 4, - 9 # 8); (- 1 # 4, 3 # 8); (- 1 # 4, 15 # 8)]%Q /\
  mask_centre (translate d M) = oshift d (mask_centre M) /\ mask_centre M = Some (1 # 4, - 3 # 8)%Q /\
  option_map geom_of (zoom_mask_unmasked (translate d M)) = option_map geom_of (option_map (translate d) (zoom_mask_unmasked M)) /\
  option_map geom_of (zoom_mask_unmasked M) = Some (3%Z, 4%Z, ((1 # 2)%Q, (3 # 2)%Q), ((1 # 4)%Q, (- 3 # 8)%Q)) /\
  overlay M 3 2 = Ok [(3 # 4, 9 # 8); (1 # 4, - 15 # 8); (- 1 # 4, 9 # 8)]%Q /\
  overlay (translate d M) 3 2 = rshift d (overlay M 3 2) /\
  Forall (fun i => (i < length (from_mask M))%nat) [0; 1; 4]%nat.
Proof. vm_compute. repeat split; repeat constructor. Qed.
(* the new closed forms on the same non-square mask (exact rationals): the bounding-box centre, the zoom quantities, the overlay and
   the radial projection at the 3-4-5 angle (cos, sin) = (3/5, 4/5), cos^2 + sin^2 = 1, with non-trivial values *)
Example C12_relative_forms_nonvacuous :
  let m := [[false; true; true; false]; [true; false; true; true]; [true; true; false; false]] in
  let M : @mask2d QOps := mkM m (1 # 2, 3 # 2)%Q (1 # 4, - 3 # 8)%Q in
  let cssn : @pt QOps := (3 # 5, 4 # 5)%Q in
  mask_centre M = oshift (morg M) (rel_box_centre m (mps M)) /\ @rel_box_centre QOps m (mps M) = Some (0, 0)%Q /\
  zoom_centre M = rel_zoom_centre m /\ @rel_zoom_centre QOps m = Some (1, 3 # 2)%Q /\
  overlay M 3 2 = rshift (morg M) (rel_overlay m (mps M) 3 2) /\
  radial_projected_from_a cssn M (1 # 2, 1 # 8)%Q 0 false
  = shift (morg M) (rel_radial_a cssn (rows m) (cols m) (mps M) (@psub QOps (1 # 2, 1 # 8)%Q (morg M)) 0 false) /\
  radial_projected_from_a cssn M (1 # 2, 1 # 8)%Q 0 false = [(1 # 2, 1 # 8); (17 # 10, 41 # 40); (29 # 10, 77 # 40)]%Q /\
  (fst cssn * fst cssn + snd cssn * snd cssn == 1)%Q /\
  sub_border_grid M [1; 2; 1; 1; 2]%Z [0; 2; 5]%nat = [(3 # 4, - 21 # 8); (7 # 8, 9 # 4); (1 # 4, - 9 # 8)]%Q /\
  Forall (fun i => (i < length (over_sampled_grid M [1; 2; 1; 1; 2]%Z))%nat) [0; 2; 5]%nat.
Proof. vm_compute. repeat split; repeat constructor. Qed.
(* a rectangular 4 x 5 mask with an interior pixel: C10's edge / border lists are non-empty, proper sub-lists, and the edge grid moves by d *)
Example C12_edge_hyps_satisfiable :
  let m := [[true; false; false; false; true]; [false; false; false; false; false]; [false; false; false; false; true]; [true; false; false; true; true]] in
  let M : @mask2d QOps := mkM m (1 # 2, 3 # 2)%Q (1 # 4, - 3 # 8)%Q in
  let d : @pt QOps := (5 # 8, - 9 # 8)%Q in
  Model.C10.rectb m = true /\ length (unmasked m) = 14%nat /\ edge_sel m = [0; 1; 2; 3; 4; 6; 7; 8; 9; 10; 11; 12; 13]%nat /\
  border_sel m = [0; 1; 2; 3; 7; 8; 11; 12; 13]%nat /\
  derive_grid_sel edge_sel (translate d M) = shift d (derive_grid_sel edge_sel M) /\
  unmasked m = Model.C10.unmasked_pixels m.
Proof. vm_compute. repeat split. Qed.
Example C12_real_hyps_satisfiable : exists M : @mask2d ROps, 0 < fst (mps M) /\ 0 < snd (mps M) /\ fst (mps M) <> 0 /\ snd (mps M) <> 0.
Proof. exists {| mk := [[false]]; mps := ((1, 2) : @pt ROps); morg := ((3, 4) : @pt ROps) |}. cbn. repeat split; lra. Qed.

(* the 1-D variants (Mask1D / Grid1D.from_mask / Grid1D.uniform / Mask1D.derive_grid.all_false / Geometry1D.extent and the 1d
   conversions of geometry_util): coordinates move by exactly d, pixel indices of translated points do not move, and every result
   is an origin-free closed form plus the origin *)
Theorem C12_one_dimensional_variants :
  (forall (r : list bool) (ps o d : R), ps <> 0 ->
     @grid_1d_via_mask ROps r ps (o + d) = @shift1 ROps d (@grid_1d_via_mask ROps r ps o) /\
     @grid_1d_all_false ROps r ps (o + d) = @shift1 ROps d (@grid_1d_all_false ROps r ps o) /\
     @grid_1d_via_mask ROps r ps o = @shift1 ROps o (@rel_grid_1d ROps r ps)) /\
  (forall (n : Z) (ps o d : R),
     @extent_1d ROps n ps (o + d) = (fst (@extent_1d ROps n ps o) + d, snd (@extent_1d ROps n ps o) + d) /\
     @extent_1d ROps n ps o = (fst (@rel_extent_1d ROps n ps) + o, snd (@rel_extent_1d ROps n ps) + o)) /\
  (forall (n : Z) (ps o d x : R),
     @pixel_coordinates_1d ROps n ps (o + d) (x + d) = @pixel_coordinates_1d ROps n ps o x /\
     @pixel_coordinates_1d ROps n ps o x = @rel_pixel_1d ROps n ps (x - o)) /\
  (forall (n : Z) (ps o d q : R), ps <> 0 ->
     @scaled_coordinates_1d ROps n ps (o + d) q = @scaled_coordinates_1d ROps n ps o q + d /\
     @scaled_coordinates_1d ROps n ps o q = @rel_scaled_1d ROps n ps q + o).
Proof. exact one_dimensional_variants. Qed.

Example C12_one_dimensional_nonvacuous :
  let r := [true; false; false; true; false] in
  (@grid_1d_via_mask QOps r (3 # 2) (1 # 4) = [(- 5 # 4); (1 # 4); (13 # 4)] /\
   @grid_1d_via_mask QOps r (3 # 2) ((1 # 4) + (5 # 8)) = @shift1 QOps (5 # 8) (@grid_1d_via_mask QOps r (3 # 2) (1 # 4)) /\
   @extent_1d QOps 5 (3 # 2) (1 # 4) = ((- 7 # 2), 4) /\
   @pixel_coordinates_1d QOps 5 (3 # 2) (1 # 4) (13 # 4) = 4%Z /\
   @pixel_coordinates_1d QOps 5 (3 # 2) ((1 # 4) + (5 # 8)) ((13 # 4) + (5 # 8)) = 4%Z)%Q.
Proof. vm_compute. repeat split. Qed.

Print Assumptions C12_pixel_indices_invariant.
Print Assumptions C12_pixel_indices_relative.
Print Assumptions C12_coordinate_conversions_translate.
Print Assumptions C12_pixel_centre_grids_translate.
Print Assumptions C12_extent_translates.
Print Assumptions C12_grid_centre_and_interior.
Print Assumptions C12_relative_forms.
Print Assumptions C12_derived_masks_keep_the_frame.
Print Assumptions C12_mask_grids_translate.
Print Assumptions C12_mask_centre_and_extent_translate.
Print Assumptions C12_zoom.
Print Assumptions C12_radial_projection.
Print Assumptions C12_overlay_mesh_translates.
Print Assumptions C12_hilbert_geometry_translates.
Print Assumptions C12_rect_mesh_and_mapper.
Print Assumptions C12_datasets_keep_the_frame.
Print Assumptions C12_subtracted_from_translates.
Print Assumptions C12_relocation_translates.
Print Assumptions C12_dropped_origin_call_sites_refuted.
Print Assumptions C12_mask_centre_and_zoom_relative_forms.
Print Assumptions C12_overlay_mesh_relative_form.
Print Assumptions C12_rect_mapper_relative_form.
Print Assumptions C12_hilbert_relative_forms.
Print Assumptions C12_radial_projection_any_angle.
Print Assumptions C12_border_views_translate.
Print Assumptions C12_edge_and_border_grids_translate.
Print Assumptions C12_call_site_relative_forms.
Print Assumptions C12_one_dimensional_variants.
