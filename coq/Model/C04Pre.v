(* C04 -- the `Preloads.curvature_matrix` branch of the two inversion classes as heap cells (an extension of the cell model of
   Model/C04.v, section "cached properties of ONE instance").

   mapping.py:208-210 and w_tilde.py:259-261:

       if self.preloads.curvature_matrix is not None:
           # Need to copy because of how curvature_reg_matirx overwrites memory.
           return copy.copy(self.preloads.curvature_matrix)

   The array the caller put into the Preloads object lives in cell [p] of the heap.  The SAME Preloads object is handed to every
   instance of a model-fit, so that cell is shared by all of them.  curvature_matrix of an instance is a cached_property: the first
   read allocates a new array holding a copy of cell [p] ([copied] = true, the code) or returns the preloaded array itself
   ([copied] = false, the code without copy.copy).  curvature_reg_matrix is the one of Model/C04.v (abstract.py): with a single
   regularized linear object it adds the regularization matrix INTO the array curvature_matrix returned and deletes the cache entry;
   without any regularization it returns that array; otherwise np.add allocates.

   Executable definitions only; the theorems are in Proofs/C04e.v. *)
From Coq Require Import List Bool Arith.
From PAV Require Import Base.Res Base.NumOps Base.Sum Model.C03 Model.C04.
Import ListNotations.

Section Pre.
  Context {O : NumOps}.

  (* cached read of curvature_matrix when preloads.curvature_matrix is set (cell [p]) *)
  Definition read_F_pre (copied : bool) (p : nat) (st : @istate O) : @istate O * nat :=
    match i_F st with
    | Some c => (st, c)
    | None =>
        if copied then read_F (hcell (i_heap st) p) st
        else ({| i_heap := i_heap st; i_F := Some p; i_FR := i_FR st |}, p)
    end.

  (* curvature_reg_matrix (abstract.py; the `del` included) on top of it: read_FR of Model/C04.v with the preloaded curvature_matrix *)
  Definition read_FR_pre (copied : bool) (p : nat) (objs : list (@lobj O)) (H : @mat O) (st : @istate O) : @istate O * nat :=
    match i_FR st with
    | Some c => (st, c)
    | None =>
        let '(st1, c) := read_F_pre copied p st in
        if negb (existsb has_reg objs) then
          ({| i_heap := i_heap st1; i_F := i_F st1; i_FR := Some c |}, c)
        else if Nat.eqb (length objs) 1 then
          ({| i_heap := upd_set (i_heap st1) c (madd (hcell (i_heap st1) c) H); i_F := None; i_FR := Some c |}, c)
        else
          ({| i_heap := i_heap st1 ++ [madd (hcell (i_heap st1) c) H]; i_F := i_F st1;
              i_FR := Some (length (i_heap st1)) |}, length (i_heap st1))
    end.

  Definition rstep_pre (copied : bool) (p : nat) (objs : list (@lobj O)) (Bv : @mat O) (Dv : @vec O) (H : @mat O) (st : @istate O) (q : rq)
    : @istate O * @rout O :=
    match q with
    | RB => (st, OutM Bv)
    | RD => (st, OutV Dv)
    | RF => let '(st1, c) := read_F_pre copied p st in (st1, OutM (hcell (i_heap st1) c))
    | RFR => let '(st1, c) := read_FR_pre copied p objs H st in (st1, OutM (hcell (i_heap st1) c))
    | RRec => let '(st1, _) := read_FR_pre copied p objs H st in (st1, OutNone)
    end.

  Fixpoint rrun_pre (copied : bool) (p : nat) (objs : list (@lobj O)) (Bv : @mat O) (Dv : @vec O) (H : @mat O) (st : @istate O) (qs : list rq)
    : @istate O * list (@rout O) :=
    match qs with
    | [] => (st, [])
    | q :: t =>
        let '(st1, v) := rstep_pre copied p objs Bv Dv H st q in
        let '(st2, vs) := rrun_pre copied p objs Bv Dv H st1 t in
        (st2, v :: vs)
    end.

  (* a new instance on the heap the earlier ones left: an empty __dict__ *)
  Definition fresh_instance (st : @istate O) : @istate O := {| i_heap := i_heap st; i_F := None; i_FR := None |}.

  (* TWO instances constructed with the same Preloads object (its curvature_matrix [Fp] in cell 0), read one after the other in the
     orders [qs1], [qs2]: the outputs of both, and what the caller's preloaded array holds afterwards *)
  Definition two_instances (copied : bool) (objs : list (@lobj O)) (Bv : @mat O) (Dv : @vec O) (Fp H : @mat O) (qs1 qs2 : list rq)
    : list (@rout O) * list (@rout O) * @mat O :=
    let st0 := {| i_heap := [Fp]; i_F := None; i_FR := None |} in
    let '(st1, o1) := rrun_pre copied 0 objs Bv Dv H st0 qs1 in
    let '(st2, o2) := rrun_pre copied 0 objs Bv Dv H (fresh_instance st1) qs2 in
    (o1, o2, hcell (i_heap st2) 0).
End Pre.
