(* C04, part 3 -- (1) mapped_reconstructed_data is ONE sum over all parameters: (stacked operated matrix) . r, for both classes;
   (2) the cached properties of one instance read in any order any number of times (heap cells; curvature_reg_matrix's in-place
       addition and `del`): every read returns the pure value; without the `del` it does not;
   (3) the w_tilde object handed over separately (dataset.w_tilde / preloads.w_tilde / DatasetInterface.w_tilde): the data vector is
       that of the data PASSED IN whatever object is handed over, check_noise_map, the factory's class choice as a total function and
       "the values do not depend on it". *)
From Coq Require Import ZArith Reals Lra Lia List Bool Arith ZifyBool.
From PAV Require Import Base.Res Base.NumOps Base.Sum Model.C03 Model.C03Lib Model.C04 Model.C04Lib.
From PAV Require Proofs.C03.
From PAV Require Import Proofs.C04 Proofs.C04b.
Import ListNotations.
Local Open Scope R_scope.
Module P3 := PAV.Proofs.C03.

(* ================================================================== 1. mapped_reconstructed_data = (stacked B) r *)
Lemma vadd_length (a b : list R) n : length a = n -> length b = n -> length (@vadd ROps a b) = n.
Proof. intros Ha Hb. unfold vadd. rewrite map_length, combine_length. rfix. lia. Qed.
Lemma nth_vadd (a b : list R) n i : length a = n -> length b = n -> (i < n)%nat ->
  nth i (@vadd ROps a b) 0 = nth i a 0 + nth i b 0.
Proof.
  intros Ha Hb Hi. unfold vadd.
  rewrite (P3.nth_map_lt _ _ _ (0, 0)) by (rewrite combine_length; rfix; lia).
  rewrite combine_nth by (rfix; lia). reflexivity.
Qed.
Lemma fold_vadd_nth n i (vs : list (list R)) : forall acc, length acc = n -> (forall v, In v vs -> length v = n) -> (i < n)%nat ->
  length (fold_left (@vadd ROps) vs acc) = n /\
  nth i (fold_left (@vadd ROps) vs acc) 0 = nth i acc 0 + sumR (map (fun v => nth i v 0) vs).
Proof.
  induction vs as [|v t IH]; intros acc Hacc Hvs Hi; cbn [fold_left map sumR].
  - split; [exact Hacc | lra].
  - assert (Hv : length v = n) by (apply Hvs; now left).
    destruct (IH (@vadd ROps acc v)) as [HL HN]; auto.
    + now apply vadd_length.
    + intros w Hw. apply Hvs. now right.
    + split; [exact HL|]. rewrite HN, (nth_vadd acc v n) by auto. rfix. lra.
Qed.
Lemma vsum_nth n i (vs : list (list R)) : (forall v, In v vs -> length v = n) -> (i < n)%nat ->
  nth i (@vsum ROps n vs) 0 = sumR (map (fun v => nth i v 0) vs).
Proof.
  intros Hvs Hi. unfold vsum. destruct (fold_vadd_nth n i vs (@zeros ROps n)) as [_ H]; auto.
  - unfold zeros. apply repeat_length.
  - rewrite H, nth_zeros_R. rfix. lra.
Qed.

(* row i of the stacked matrix is the concatenation of the objects' rows *)
Lemma op_matrix_row (c : @convolver ROps) objs n i : (i < n)%nat ->
  nth i (op_matrix c objs n) [] = concat (map (fun o => nth i (opmat c o) []) objs).
Proof.
  intros Hi. unfold op_matrix, hstack. rewrite (nth_map_seq _ n i) by exact Hi. now rewrite map_map.
Qed.

Lemma seq_split a p q : seq a (p + q) = seq a p ++ seq (a + p) q.
Proof. apply seq_app. Qed.

(* the sum over the objects of (object's matrix) . (object's slice) is the one sum over all parameters *)
Lemma stacked_product (c : @convolver ROps) n i : (i < n)%nat -> forall objs (r : list R),
  (forall o, In o objs -> shape n (params o) (opmat c o)) -> length r = tp objs ->
  sumR (map (fun orr => nth i (@mapped_via_matrix ROps (opmat c (fst orr)) (snd orr)) 0) (combine objs (@slices ROps objs r))) =
  sumR (map (fun a => nth a (concat (map (fun o => nth i (opmat c o) []) objs)) 0 * nth a r 0) (seq 0 (tp objs))).
Proof.
  intros Hi. induction objs as [|o t IH]; intros r Hsh Hr.
  - reflexivity.
  - cbn [slices combine map sumR concat fst snd]. rewrite tp_cons in *.
    assert (Ho : shape n (params o) (opmat c o)) by (apply Hsh; now left).
    destruct Ho as [HL HR]. pose proof (HR i Hi) as Hrow.
    rewrite seq_split, map_app, sumR_app. f_equal.
    + (* the object's own block *)
      rewrite mapped_via_matrix_spec by (rfix; lia).
      rewrite firstn_length, Nat.min_l by (rfix; lia).
      apply sumR_map_ext. intros a Ha. apply in_seq in Ha.
      rewrite app_nth1 by lia. rewrite nth_firstn_lt by lia. rewrite mget_R. reflexivity.
    + (* the remaining objects, shifted by params o *)
      rewrite IH; [| intros o' Ho'; apply Hsh; now right | rewrite skipn_length; rfix; lia].
      rewrite (seq_shift_add (0 + params o)), map_map. apply sumR_map_ext. intros b Hb.
      rewrite app_nth2 by lia. rewrite nth_skipn_add. f_equal; f_equal; lia.
Qed.

(* InversionImagingMapping.mapped_reconstructed_data, pixel i: ONE sum over all parameters of the stacked operated matrix *)
Theorem mapped_mapping_is_stacked (c : @convolver ROps) objs n (r : list R) i :
  (forall o, In o objs -> shape n (params o) (opmat c o)) -> length r = tp objs -> (i < n)%nat ->
  nth i (@mapped_mapping ROps c objs n r) 0 =
  sumR (map (fun a => mget (op_matrix c objs n) i a * nth a r 0) (seq 0 (tp objs))).
Proof.
  intros Hsh Hr Hi. unfold mapped_mapping. rewrite vsum_nth; auto.
  - rewrite map_map. cbv beta. etransitivity; [exact (stacked_product c n i Hi objs r Hsh Hr)|].
    apply sumR_map_ext. intros a _. rewrite mget_R, op_matrix_row by exact Hi. reflexivity.
  - intros v Hv. apply in_map_iff in Hv. destruct Hv as [[o rs] [<- Hin]]. cbn [fst snd].
    destruct (slices_lengths objs r o rs Hr Hin) as [Ho _]. rewrite mapped_via_matrix_length. apply (Hsh o Ho).
Qed.

Lemma wf_obj_shape (c : @convolver ROps) n o : wf_obj c n o -> shape n (params o) (opmat c o).
Proof. intros (_ & H & _). exact H. Qed.

Section MappedFull.
  Variables (m : mask) (K : RK) (c : @convolver ROps).
  Hypothesis Hrect : rectb m = true.
  Hypothesis Hc : @convolver_init ROps m K = Ok c.
  Notation n := (length (unmasked m)).
  (* InversionImagingWTilde.mapped_reconstructed_data (unique mappings, then convolve_image_no_blurring; function lists by
     np.sum(reconstruction * operated_mapping_matrix, axis=1)) is the same single sum *)
  Theorem mapped_wt_is_stacked objs (r : list R) i :
    (forall o, In o objs -> wf_obj c n o) -> length r = tp objs -> (i < n)%nat ->
    nth i (@mapped_wt ROps c objs n r) 0 =
    sumR (map (fun a => mget (op_matrix c objs n) i a * nth a r 0) (seq 0 (tp objs))).
  Proof.
    intros Hwf Hr Hi. rewrite (mapped_wt_eq_mapped_mapping m K c Hrect Hc objs r Hwf Hr).
    apply mapped_mapping_is_stacked; auto. intros o Ho. apply wf_obj_shape. now apply Hwf.
  Qed.
End MappedFull.

(* ================================================================== 2. cached properties read in any order *)
Section Reads.
  Variables (objs : list (@lobj ROps)) (Bv : @mat ROps) (Dv : list R) (Fv H : @mat ROps).
  Definition FRv : @mat ROps := if existsb (@has_reg ROps) objs then @madd ROps Fv H else Fv.
  (* the cached curvature_matrix array holds F, the cached curvature_reg_matrix array holds F + H (F without regularization) *)
  Definition cells_ok (st : @istate ROps) : Prop :=
    (forall c, i_F st = Some c -> (c < length (i_heap st))%nat /\ hcell (i_heap st) c = Fv) /\
    (forall c, i_FR st = Some c -> (c < length (i_heap st))%nat /\ hcell (i_heap st) c = FRv).

  Lemma hcell_app_old (h : list (@mat ROps)) x c : (c < length h)%nat -> hcell (h ++ [x]) c = hcell h c.
  Proof. intros Hc. unfold hcell. now rewrite app_nth1. Qed.
  Lemma hcell_app_new (h : list (@mat ROps)) x : hcell (h ++ [x]) (length h) = x.
  Proof. unfold hcell. rewrite app_nth2 by lia. now rewrite Nat.sub_diag. Qed.

  Lemma read_F_ok st : cells_ok st ->
    let '(st1, c) := read_F Fv st in
    cells_ok st1 /\ (c < length (i_heap st1))%nat /\ hcell (i_heap st1) c = Fv /\ i_F st1 = Some c /\ i_FR st1 = i_FR st.
  Proof.
    intros [HF HR]. unfold read_F. destruct (i_F st) as [c|] eqn:EF; cbv beta iota.
    - destruct (HF c eq_refl) as [Hc Hv]. split; [split; [intros c' E'; apply HF; congruence | exact HR]|].
      repeat split; auto.
    - split; [split|]; cbn [i_heap i_F i_FR].
      + intros c' E'. injection E' as <-. rewrite app_length. cbn [length]. split; [lia | apply hcell_app_new].
      + intros c' E'. destruct (HR c' E') as [Hc' Hv']. rewrite app_length. cbn [length]. split; [lia|].
        now rewrite hcell_app_old.
      + rewrite app_length. cbn [length]. split; [lia|]. split; [apply hcell_app_new|]. split; reflexivity.
  Qed.

  Lemma hcell_upd_same (h : list (@mat ROps)) c x : (c < length h)%nat -> hcell (upd_set h c x) c = x.
  Proof. intros Hc. unfold hcell. rewrite nth_upd_set by exact Hc. now rewrite Nat.eqb_refl. Qed.

  (* with the `del` (entry_deleted = true) *)
  Lemma read_FR_ok st : cells_ok st ->
    let '(st1, c) := read_FR true objs Fv H st in
    cells_ok st1 /\ (c < length (i_heap st1))%nat /\ hcell (i_heap st1) c = FRv.
  Proof.
    intros Hok. unfold read_FR. destruct (i_FR st) as [c|] eqn:ER; cbv beta iota.
    - pose proof Hok as [HF HR]. destruct (HR c ER) as [Hc Hv]. split; [exact Hok|]. split; auto.
    - pose proof (read_F_ok st Hok) as HrF. destruct (read_F Fv st) as [st1 c].
      destruct HrF as ([HF1 HR1] & Hc & Hv & EF1 & ER1). rewrite ER in ER1.
      unfold cells_ok, FRv in *. destruct (existsb (@has_reg ROps) objs) eqn:Ereg; cbn [negb]; cbv beta iota.
      + destruct (Nat.eqb (length objs) 1).
        * (* a single object with a regularization: F + H is written INTO the cached array and the entry is dropped *)
          split; [split|]; cbn [i_heap i_F i_FR]; rewrite ?upd_set_length.
          -- intros c' E'. discriminate.
          -- intros c' E'. injection E' as <-. split; [exact Hc|]. rewrite hcell_upd_same by exact Hc. now rewrite Hv.
          -- split; [exact Hc|]. rewrite hcell_upd_same by exact Hc. now rewrite Hv.
        * (* np.add allocates *)
          split; [split|]; cbn [i_heap i_F i_FR]; rewrite ?app_length; cbn [length].
          -- intros c' E'. destruct (HF1 c' E') as [Hc' Hv']. split; [lia|]. now rewrite hcell_app_old.
          -- intros c' E'. injection E' as <-. split; [lia|]. rewrite hcell_app_new. now rewrite Hv.
          -- split; [lia|]. rewrite hcell_app_new. now rewrite Hv.
      + (* no regularization at all: the cached curvature_matrix array itself (never written afterwards) *)
        split; [split|]; cbn [i_heap i_F i_FR].
        -- exact HF1.
        -- intros c' E'. injection E' as <-. split; [exact Hc | exact Hv].
        -- split; [exact Hc | exact Hv].
  Qed.

  Lemma rstep_pure st q : cells_ok st ->
    let '(st1, v) := rstep true objs Bv Dv Fv H st q in cells_ok st1 /\ v = rpure objs Bv Dv Fv H q.
  Proof.
    intros Hok. destruct q; cbn [rstep rpure].
    - split; [exact Hok | reflexivity].
    - split; [exact Hok | reflexivity].
    - pose proof (read_F_ok st Hok) as HrF. destruct (read_F Fv st) as [st1 c]. destruct HrF as (Hok1 & _ & Hv & _).
      split; [exact Hok1 | now rewrite Hv].
    - pose proof (read_FR_ok st Hok) as HrR. destruct (read_FR true objs Fv H st) as [st1 c]. destruct HrR as (Hok1 & _ & Hv).
      split; [exact Hok1 | now rewrite Hv].
    - pose proof (read_FR_ok st Hok) as HrR. destruct (read_FR true objs Fv H st) as [st1 c]. destruct HrR as (Hok1 & _).
      split; [exact Hok1 | reflexivity].
  Qed.

  (* every read of every sequence returns the pure value, whatever was read before and however often *)
  Theorem rrun_pure qs : forall st, cells_ok st -> rrun true objs Bv Dv Fv H st qs = map (rpure objs Bv Dv Fv H) qs.
  Proof.
    induction qs as [|q t IH]; intros st Hok; [reflexivity|].
    cbn [rrun map]. pose proof (rstep_pure st q Hok) as Hs. destruct (rstep true objs Bv Dv Fv H st q) as [st1 v].
    destruct Hs as [Hok1 ->]. f_equal. now apply IH.
  Qed.
  Lemma cells_ok_ist0 : cells_ok (@ist0 ROps).
  Proof. split; intros c E; discriminate. Qed.
  Corollary rrun_pure0 qs : rrun true objs Bv Dv Fv H (@ist0 ROps) qs = map (rpure objs Bv Dv Fv H) qs.
  Proof. apply rrun_pure, cells_ok_ist0. Qed.
End Reads.

(* without the `del self.__dict__["curvature_matrix"]`: curvature_matrix read after curvature_reg_matrix returns F + H *)
Theorem reads_without_del_refuted :
  exists (objs : list (@lobj ROps)) (Bv : @mat ROps) (Dv : list R) (Fv H : @mat ROps) (qs : list rq),
    rrun false objs Bv Dv Fv H (@ist0 ROps) qs <> map (rpure objs Bv Dv Fv H) qs.
Proof.
  exists [@LMapper ROps (@Build_enc ROps [] [] []) [] 1%nat true], [], [], [[1]], [[1]], [RFR; RF].
  cbn. unfold hcell. cbn. intros E. injection E as E1. lra.
Qed.

(* ================================================================== 3. the w_tilde object, the factory *)
Lemma F_wt_of_imaging (c : @convolver ROps) m K objs (s : list R) eps :
  @F_wt_of ROps c (@imaging_w_tilde ROps m K s) objs s eps = @F_wt ROps c m K objs s eps.
Proof.
  unfold F_wt_of, F_wt, imaging_w_tilde. destruct (@preload ROps (@native ROps m s) K (unmasked m)) as [[pre idx] lens].
  reflexivity.
Qed.
Lemma imaging_w_tilde_nmv m K (s : list R) : w_nmv (@imaging_w_tilde ROps m K s) = nth 0 s 0.
Proof. unfold imaging_w_tilde. destruct (@preload ROps (@native ROps m s) K (unmasked m)) as [[pre idx] lens]. reflexivity. Qed.
Lemma Reqb_refl x : Reqb x x = true.
Proof. unfold Reqb. destruct (Req_EM_T x x); [reflexivity | contradiction]. Qed.

(* the instance handed the Imaging's own w_tilde (or one made by ANY Imaging with the same mask, psf and noise map: the object
   has no component that depends on data) is the instance of the model [inversion] *)
Theorem inversion_w_own (m : mask) (K : RK) (d s : list R) objs wt eps :
  @inversion_w ROps m K d s (@imaging_w_tilde ROps m K s) objs wt eps = @inversion ROps m K d s objs wt eps.
Proof.
  unfold inversion_w, inversion. destruct (@convolver_init ROps m K) as [c|e]; [|reflexivity].
  destruct wt; [|reflexivity]. rewrite imaging_w_tilde_nmv. unfold nthT, zero. cbn [eqb ofZ ROps]. rewrite Reqb_refl.
  now rewrite F_wt_of_imaging.
Qed.
(* check_noise_map: a w_tilde object whose noise_map_value differs from noise_map[0] is refused by the w-tilde class *)
Theorem inversion_w_refuses (m : mask) (K : RK) c (d s : list R) (w : @wtilde ROps) objs eps :
  @convolver_init ROps m K = Ok c -> nth 0 s 0 <> w_nmv w ->
  @inversion_w ROps m K d s w objs true eps = Raise InversionException.
Proof.
  intros Hc Hne. unfold inversion_w. rewrite Hc. unfold nthT, zero. cbn [eqb ofZ ROps]. unfold Reqb.
  destruct (Req_EM_T _ _) as [E|_]; [contradiction | reflexivity].
Qed.
(* operated_mapping_matrix and data_vector of the instance do not depend on the w_tilde object at all: whatever object is handed
   over (dataset.w_tilde, preloads.w_tilde of an Imaging with other data, DatasetInterface.w_tilde), the w-tilde data vector is
   computed from the data and the noise map of the dataset that was passed in *)
Theorem inversion_w_B_D_independent_of_w (m : mask) (K : RK) (d s : list R) (w w' : @wtilde ROps) objs wt eps o o' :
  @inversion_w ROps m K d s w objs wt eps = Ok o -> @inversion_w ROps m K d s w' objs wt eps = Ok o' ->
  o_B o = o_B o' /\ o_D o = o_D o'.
Proof.
  unfold inversion_w. destruct (@convolver_init ROps m K) as [c|e]; [|discriminate].
  destruct wt.
  - destruct (eqb ROps (@nthT ROps s 0) (w_nmv w)); [|discriminate]. destruct (eqb ROps (@nthT ROps s 0) (w_nmv w')); [|discriminate].
    intros E E'. inversion E; inversion E'; subst; cbn [o_B o_D]. split; reflexivity.
  - intros E E'. inversion E; inversion E'; subst; cbn [o_B o_D]. split; reflexivity.
Qed.

(* factory.inversion_imaging_from as a total function: InversionImagingWTilde iff settings.use_w_tilde, some object is not a
   function list, and preloads.use_w_tilde is not False *)
Theorem factory_use_wt_spec (objs : list (@lobj ROps)) su pu :
  factory_use_wt objs su pu = true <-> su = true /\ forallb (@is_func ROps) objs = false /\ pu <> Some false.
Proof.
  unfold factory_use_wt. destruct su; cbn [negb].
  - destruct (forallb (@is_func ROps) objs).
    + split; [discriminate | intros (_ & H & _); discriminate].
    + destruct pu as [[|]|]; split; try discriminate; try (intros _; repeat split; congruence).
      intros (_ & _ & H). now contradiction H.
  - split; [discriminate | intros (H & _); discriminate].
Qed.

Section FactoryFull.
  Variables (m : mask) (K : RK) (c : @convolver ROps).
  Hypothesis Hrect : rectb m = true.
  Hypothesis Hc : @convolver_init ROps m K = Ok c.
  Notation n := (length (unmasked m)).
  Variables (objs : list (@lobj ROps)) (d s : list R) (eps : R).
  Hypothesis Hn : (0 < n)%nat.
  Hypothesis Hd : length d = n.
  Hypothesis Hs : length s = n.
  Hypothesis Hpos : forall i, (i < n)%nat -> 0 < nth i s 0.
  Hypothesis Hwf : forall o, In o objs -> wf_obj c n o.

  (* the instance exists whichever class is chosen, and its values do not depend on the choice *)
  Theorem inversion_values_independent_of_class wt wt' :
    exists o o', @inversion ROps m K d s objs wt eps = Ok o /\ @inversion ROps m K d s objs wt' eps = Ok o' /\
      o_B o = o_B o' /\
      (forall a, (a < tp objs)%nat -> nth a (o_D o) 0 = nth a (o_D o') 0) /\
      (forall a b, (a < tp objs)%nat -> (b < tp objs)%nat -> mget (o_F o) a b = mget (o_F o') a b).
  Proof.
    unfold inversion. rewrite Hc.
    assert (HD : forall a, (a < tp objs)%nat -> nth a (@D_wt ROps c m K objs d s) 0 = nth a (@D_mapping ROps c objs d s) 0).
    { intros a Ha. apply (D_wt_eq_D_mapping_full m K c Hrect Hc); auto. now apply pos_nonzero. }
    assert (HF : forall a b, (a < tp objs)%nat -> (b < tp objs)%nat ->
                 mget (@F_wt ROps c m K objs s eps) a b = mget (@F_mapping ROps c objs (length d) s eps) a b).
    { intros a b Ha Hb. rewrite Hd. apply (F_wt_eq_F_mapping_full m K c Hrect Hc); auto. }
    destruct wt, wt'; eexists; eexists; (split; [reflexivity|]); (split; [reflexivity|]); cbn [o_B o_D o_F];
      (split; [reflexivity|]); split; intros; auto; symmetry; auto.
  Qed.

  (* aa.Inversion(dataset, linear_obj_list, settings, preloads) with the dataset's own w_tilde or a preloaded one made from the same
     noise map: whatever settings.use_w_tilde / preloads.use_w_tilde say, the instance exists and has the same values *)
  Theorem inversion_from_values_independent_of_flags su pu su' pu' pw pw' :
    (pw = None \/ pw = Some (@imaging_w_tilde ROps m K s)) -> (pw' = None \/ pw' = Some (@imaging_w_tilde ROps m K s)) ->
    exists o o', @inversion_from ROps m K d s (@imaging_w_tilde ROps m K s) pw objs su pu eps = Ok o /\
                 @inversion_from ROps m K d s (@imaging_w_tilde ROps m K s) pw' objs su' pu' eps = Ok o' /\
      o_B o = o_B o' /\
      (forall a, (a < tp objs)%nat -> nth a (o_D o) 0 = nth a (o_D o') 0) /\
      (forall a b, (a < tp objs)%nat -> (b < tp objs)%nat -> mget (o_F o) a b = mget (o_F o') a b).
  Proof.
    intros Hpw Hpw'. unfold inversion_from.
    assert (E : factory_w (@imaging_w_tilde ROps m K s) pw = @imaging_w_tilde ROps m K s) by (destruct Hpw; subst; reflexivity).
    assert (E' : factory_w (@imaging_w_tilde ROps m K s) pw' = @imaging_w_tilde ROps m K s) by (destruct Hpw'; subst; reflexivity).
    rewrite E, E', !inversion_w_own. apply inversion_values_independent_of_class.
  Qed.

  (* one instance, any sequence of reads: operated_mapping_matrix / data_vector / curvature_matrix always return the instance's
     B, D, F; curvature_reg_matrix returns F + H (F itself when no object has a regularization) *)
  Theorem inversion_reads_pure wt (H : @mat ROps) qs :
    exists o, @inversion ROps m K d s objs wt eps = Ok o /\
      @inversion_reads ROps m K d s (@imaging_w_tilde ROps m K s) objs wt eps H qs =
      Ok (map (rpure objs (o_B o) (o_D o) (o_F o) H) qs).
  Proof.
    unfold inversion_reads. rewrite inversion_w_own. unfold inversion. rewrite Hc.
    destruct wt; eexists; (split; [reflexivity|]); now rewrite rrun_pure0.
  Qed.
End FactoryFull.

(* ================================================================== 4. the two classes hand the SAME F and D (as lists) to the solver *)
Lemma shape_eq_ext n p (A B : @mat ROps) : shape n p A -> shape n p B ->
  (forall a b, (a < n)%nat -> (b < p)%nat -> mget A a b = mget B a b) -> A = B.
Proof.
  intros [HA HAr] [HB HBr] Heq. apply (P3.nth_ext_len _ _ []); [rfix; lia|]. intros a Ha. rewrite HA in Ha.
  apply (P3.nth_ext_len _ _ 0); [rewrite HAr, HBr by exact Ha; reflexivity|]. intros b Hb. rewrite HAr in Hb by exact Ha.
  specialize (Heq a b Ha Hb). now rewrite !mget_R in Heq.
Qed.
Lemma concat_map_length {A} (f : A -> list R) (g : A -> nat) l : (forall x, In x l -> length (f x) = g x) ->
  length (concat (map f l)) = list_sum (map g l).
Proof.
  induction l as [|x t IH]; intros H; [reflexivity|]. cbn [map concat list_sum]. rewrite app_length, H by now left.
  rewrite IH; [reflexivity|]. intros y Hy. apply H. now right.
Qed.

Section SameSystem.
  Variables (m : mask) (K : RK) (c : @convolver ROps).
  Hypothesis Hrect : rectb m = true.
  Hypothesis Hc : @convolver_init ROps m K = Ok c.
  Notation n := (length (unmasked m)).
  Variables (objs : list (@lobj ROps)) (s : list R) (eps : R).
  Hypothesis Hne : objs <> [].
  Hypothesis Hn : (0 < n)%nat.
  Hypothesis Hs : length s = n.
  Hypothesis Hpos : forall i, (i < n)%nat -> 0 < nth i s 0.
  Hypothesis Hwf : forall o, In o objs -> wf_obj c n o.

  Lemma tp_pos : (0 < tp objs)%nat.
  Proof.
    destruct objs as [|o t]; [contradiction|]. rewrite tp_cons. destruct (Hwf o (or_introl eq_refl)) as [H _]. lia.
  Qed.
  Lemma Hshape : forall o, In o objs -> shape n (params o) (opmat c o).
  Proof. intros o Ho. apply wf_obj_shape. now apply Hwf. Qed.
  Lemma ncols_B : ncols (op_matrix c objs n) = tp objs.
  Proof. apply (ncols_shape _ n); [apply shape_op_matrix, Hshape | exact Hn]. Qed.

  Lemma shape_F_mapping : shape (tp objs) (tp objs) (@F_mapping ROps c objs n s eps).
  Proof. unfold F_mapping. rewrite <- ncols_B at 1 2. apply shape_curv_mapping. Qed.
  Lemma shape_F_wt : shape (tp objs) (tp objs) (@F_wt ROps c m K objs s eps).
  Proof.
    pose proof tp_pos as Htp.
    destruct (mirrored_wt_is_normal_full m K c Hrect Hc objs s Hn Hs Hpos Hwf 0%nat 0%nat Htp Htp) as [Hsh _].
    cbv zeta in Hsh. unfold F_wt.
    destruct (@preload ROps (@native ROps m s) K (unmasked m)) as [[pre idx] lens]. cbn [fst snd] in Hsh.
    destruct (negb (Nat.eqb (length (@noreg_index_list ROps objs)) 0)).
    - apply shape_add_to_diag. now apply shape_mirrored.
    - now apply shape_mirrored.
  Qed.
  (* InversionImagingWTilde.curvature_matrix and InversionImagingMapping.curvature_matrix are the same matrix *)
  Theorem F_wt_eq_F_mapping_list : @F_wt ROps c m K objs s eps = @F_mapping ROps c objs n s eps.
  Proof.
    apply (shape_eq_ext (tp objs) (tp objs)); [apply shape_F_wt | apply shape_F_mapping|].
    intros a b Ha Hb. now apply (F_wt_eq_F_mapping_full m K c Hrect Hc).
  Qed.

  Variable d : list R.
  Hypothesis Hd : length d = n.
  Lemma D_mapping_length : length (@D_mapping ROps c objs d s) = tp objs.
  Proof. unfold D_mapping. rewrite dv_blurred_length. rfix. rewrite Hd. apply ncols_B. Qed.
  Lemma D_wt_length : length (@D_wt ROps c m K objs d s) = tp objs.
  Proof.
    destruct (existsb (@is_func ROps) objs) eqn:Ef.
    - unfold D_wt. rewrite Ef.
      set (wd := @wt_data ROps (@native ROps m d) (@native ROps m s) K (unmasked m)).
      set (g1 := fun o : @lobj ROps => @dv_wtd ROps wd (enc_of o) (params o)).
      set (g2 := fun o : @lobj ROps => @dv_blurred ROps (opmat c o) d s).
      destruct (fold_slices_ent objs is_mapper g1 (@zeros ROps (total_params objs))) as [L1 _].
      { unfold zeros. now rewrite repeat_length, total_params_tp. }
      { intros k _ _. unfold g1. apply dv_wtd_length. }
      destruct (fold_slices_ent objs is_func g2
                  (fold_left (fun dv (orr : @lobj ROps * (nat * nat)) => @set_slice ROps dv (fst (snd orr)) (g1 (fst orr)))
                             (combine (filter is_mapper objs) (@ranges_from ROps is_mapper objs 0)) (@zeros ROps (total_params objs))) L1) as [L2 _].
      { intros k Hk _. unfold g2. rewrite dv_blurred_length. apply (ncols_shape _ n); auto. apply Hshape. unfold ob. now apply nth_In. }
      exact L2.
    - rewrite D_wt_mappers_only by (auto; now apply no_func_all_mappers).
      rewrite (concat_map_length _ params); [reflexivity|]. intros o _. apply dv_wtd_length.
  Qed.
  (* ... and the same data vector *)
  Theorem D_wt_eq_D_mapping_list : @D_wt ROps c m K objs d s = @D_mapping ROps c objs d s.
  Proof.
    pose proof D_wt_length as L1. pose proof D_mapping_length as L2. rfix.
    apply (P3.nth_ext_len _ _ 0); [lia|]. intros a Ha. rewrite L1 in Ha.
    apply (D_wt_eq_D_mapping_full m K c Hrect Hc); auto. now apply pos_nonzero.
  Qed.
  (* hence the reconstruction (any function of curvature_reg_matrix and data_vector: np.linalg.solve, fnnls, ...) is the same
     in both formalisms, whatever the regularization matrix *)
  Theorem reconstruction_wtilde_eq_mapping (solve : @mat ROps -> list R -> list R) (H : @mat ROps) :
    solve (FRv objs (@F_wt ROps c m K objs s eps) H) (@D_wt ROps c m K objs d s) =
    solve (FRv objs (@F_mapping ROps c objs n s eps) H) (@D_mapping ROps c objs d s).
  Proof. now rewrite F_wt_eq_F_mapping_list, D_wt_eq_D_mapping_list. Qed.
End SameSystem.
