(* C20 -- histories on one ArrayTriangles object, second kind: the user re-wires triangles in place,
   A.indices[r] = (a, b, c), between reads.  Executable definitions only.
     a_set_row / a_rewires   numpy assignment into the stored index array, one row at a time, in order
     row_after               specification side: the row a position holds after the history
                             (the last row written to it, else the original row)                       *)
From Coq Require Import ZArith List Bool.
From PAV Require Import Base.Res Base.NumOps Model.C20.
Import ListNotations.

(* numpy assignment indices[r] = row (r in range; out of range raises and changes nothing) *)
Fixpoint set_row (r : nat) (row : idx3) (l : list idx3) : list idx3 :=
  match l, r with
  | [], _ => []
  | _ :: t, 0%nat => row :: t
  | q :: t, S r' => q :: set_row r' row t
  end.
Definition getrow (rows : list idx3) (i : nat) : idx3 := nth i rows (0, 0, 0)%nat.
Definition rewires_in_range (rows : list idx3) (es : list (nat * idx3)) : bool :=
  forallb (fun e : nat * idx3 => Nat.ltb (fst e) (length rows)) es.

(* specification side *)
Fixpoint last_row (es : list (nat * idx3)) (i : nat) : option idx3 :=
  match es with
  | [] => None
  | e :: r => match last_row r i with
              | Some p => Some p
              | None => if Nat.eqb (fst e) i then Some (snd e) else None
              end
  end.
Definition row_after (rows : list idx3) (es : list (nat * idx3)) (i : nat) : idx3 :=
  match last_row es i with Some p => p | None => getrow rows i end.

Section Rewire.
  Context {O : NumOps}.
  Definition a_set_row (A : @atri O) (e : nat * idx3) : @atri O := (set_row (fst e) (snd e) (fst A), snd A).
  (* a history of such writes; every property / method of ArrayTriangles is a function of the CURRENT arrays *)
  Definition a_rewires (A : @atri O) (es : list (nat * idx3)) : @atri O := fold_left a_set_row es A.
End Rewire.
