(* C09 -- proofs, part 4: HELD points.  The @over_sample decorator on a Grid2DOverSampled evaluates the user function on the
   points the object HOLDS (grid.grid: shifted / ray-traced / deflected sub-points) and bins them with the object's over
   sampler: each pixel receives the mean of f over ITS OWN s_i^2 held points, whatever the sampler's uniform sub-pixel
   centres are; and the decorator on a Grid2D whose values are not the pixel centres of its mask. *)
From Coq Require Import ZArith Reals Lra Lia List Bool Arith.
From PAV Require Import Base.NumOps Base.Res Base.Sum Model.C09 Proofs.C09 Model.C09h Proofs.C09h.
Import ListNotations.
Local Open Scope R_scope.

Lemma chop_map {A B} (g : A -> B) lens : forall l, chop lens (map g l) = map (map g) (chop lens l).
Proof.
  induction lens as [|n lens IH]; intros l; cbn [chop map]; [reflexivity|].
  rewrite firstn_map, skipn_map, IH. reflexivity.
Qed.

(* the Grid2DOverSampled branch of the decorator = per-pixel mean of f over the HELD points *)
Theorem decorator_oversampled_grid_uses_held_points (f : R * R -> R) m ss (held : list (R * R)) :
  shape_okP m ss -> length held = list_sum (map (fun s => (s * s)%nat) ss) ->
  @decorated_oversampled ROps f m ss held = @spec_held ROps f ss held.
Proof.
  intros Hsh Hl. unfold decorated_oversampled.
  rewrite bin_is_mean_of_own_subvalues; [|exact Hsh|rewrite map_length; exact Hl].
  unfold spec_binned, spec_held. rewrite chop_map, map_map. reflexivity.
Qed.

(* consistency: when the object holds exactly the sampler's own uniform centres, the branch is array_via_func_from *)
Theorem decorator_oversampled_on_own_grid (f : R * R -> R) m (ps og : R * R) ss :
  @decorated_oversampled ROps f m ss (@over_sampled_grid ROps m ps og ss) = @array_via_func ROps f m ps og ss.
Proof. reflexivity. Qed.

(* a Grid2D whose values are NOT the pixel centres of its mask: when over sampling is performed the result is the binned
   result on the mask's sub-grid; when it is not (sub-size one) the plain evaluation on the held values (decorator_sub_size_one,
   decorator_sub_size_map_ones are stated for arbitrary grid values) *)
Theorem decorator_uniform_map_any_values (f : R * R -> R) m (ps og : R * R) (vals : list (R * R)) ss :
  shape_okP m ss -> ps_okR ps -> perform_over_sampling m (@OSUniformMap ROps ss) = true ->
  @decorated ROps f m ps og vals (@OSUniformMap ROps ss) = Ok (@spec_via_func ROps f m ps og ss).
Proof.
  intros Hsh Hps E. unfold decorated. rewrite E. cbn [negb]. f_equal. apply via_func_is_block_means; assumption.
Qed.
Theorem decorator_uniform_int_any_values (f : R * R -> R) m (ps og : R * R) (vals : list (R * R)) s :
  (2 <= s)%nat -> ps_okR ps ->
  @decorated ROps f m ps og vals (@OSUniformInt ROps s) = Ok (@spec_via_func ROps f m ps og (repeat s (length (unmasked m)))).
Proof.
  intros Hs Hps.
  rewrite <- (decorator_uniform_int f m ps og s) by (try lia; exact Hps).
  unfold decorated, perform_over_sampling. destruct (Nat.eqb s 1) eqn:E; [apply Nat.eqb_eq in E; lia|reflexivity].
Qed.

(* non-vacuity / the blind spot itself: one pixel, sub-size 2, f = y; the object holds the uniform centres shifted by +5 in y:
   the result is 5 (the mean over the held points), not 0 (the mean over the sampler's own centres) *)
Example held_points_are_used :
  @decorated_oversampled ROps fst [[false]] [2%nat] [(5 + 1/4, -1/4); (5 + 1/4, 1/4); (5 - 1/4, -1/4); (5 - 1/4, 1/4)] = [5]
  /\ @array_via_func ROps fst [[false]] (1, 1) (0, 0) [2%nat] = [0].
Proof.
  split.
  - rewrite decorator_oversampled_grid_uses_held_points; [|split; [reflexivity|repeat constructor]|reflexivity].
    unfold spec_held, mean, sumT. cbn. f_equal. lra.
  - rewrite via_func_is_block_means; [|split; [reflexivity|repeat constructor]|split; cbn; lra].
    unfold spec_via_func, spec_centres, block, sub_centre, pixel_centre, mean, sumT, half, two, one. cbn. f_equal. lra.
Qed.

(* ONE over sampler, any history of cached reads, binnings, user functions and Grid2DOverSampled calls (no edit of the map):
   the k-th step, if it is a decorated call with a Grid2DOverSampled holding [held], returns the per-pixel means of f over
   [held] -- whatever was read, cached or held before *)
Theorem sampler_history_held_step m (ps og : R * R) ss (ops : list (@sop ROps)) k held f :
  shape_okP m ss ->
  forallb (fun op => match op with SEdit _ _ => false | _ => true end) ops = true ->
  nth_error ops k = Some (@SHeld ROps held f) -> length held = list_sum (map (fun s => (s * s)%nat) ss) ->
  nth_error (@srun ROps (@sampler_new ROps m ps og ss) ops) k = Some (@RNums ROps (@spec_held ROps f ss held)).
Proof.
  intros Hsh Hne Hk Hl. rewrite sampler_history_no_edit by exact Hne.
  rewrite (map_nth_error _ _ _ Hk). cbn [spure]. rewrite decorator_oversampled_grid_uses_held_points by assumption. reflexivity.
Qed.
