(* C17 -- Grid decorators return containers mirroring the input grid, entry k for point k.
   Statements only.  The model (Model/C17.v) is parametric in the user function [f : grid -> res result]; every theorem
   quantifies over ALL such functions.  Part 1 holds over any number type ([O : NumOps]); parts 2-4 are over the real
   numbers ([ROps]).  [fits d g r] (boolean) says: [r] is the kind of result decorator [d] is meant for and has one entry per
   point of [g].  [mirror_of d g r] is the container that mirrors [g]; its accessors [entries], [on_mask2], [on_mask1],
   [attached_grid] are what the statements talk about. *)
From Coq Require Import ZArith QArith List Bool Reals Lra.
From PAV Require Import Base.Res Base.Check Base.NumOps Model.C17 Proofs.C17 Model.C17x Proofs.C17x.
Import ListNotations.
Local Open Scope R_scope.

(* ====================================================================== 1. the mirror: to_array / to_grid / to_vector_yx *)

(* for every user function: a fitting result comes back in the container that mirrors the grid ... *)
Theorem C17_maker_mirrors_grid : forall (O : NumOps) (d : maker) (f : @grid O -> res (@result O)) (g : @grid O) (r : @res1 O),
  f (eval_arg g) = Ok (One r) -> fits d g r = true -> maker_result d f g = Ok (OOne (mirror_of d g r)).
Proof. exact @maker_one. Qed.
(* ... list results are wrapped element by element ... *)
Theorem C17_maker_mirrors_lists : forall (O : NumOps) (d : maker) (f : @grid O -> res (@result O)) (g : @grid O) (l : list (@res1 O)),
  f (eval_arg g) = Ok (Many l) -> forallb (fits d g) l = true -> l <> [] ->
  maker_result d f g = Ok (OMany (map (mirror_of d g) l)).
Proof. exact @maker_many. Qed.
(* ... and an exception of the function passes through *)
Theorem C17_maker_propagates_errors : forall (O : NumOps) (d : maker) (f : @grid O -> res (@result O)) (g : @grid O) e,
  f (eval_arg g) = Raise e -> maker_result d f g = Raise e.
Proof. exact @maker_error. Qed.

(* what "mirror" means: entry k of the container is entry k of the function's result, one per point; a uniform grid's
   result is on the same mask; a vector field carries the input coordinates; a 1-D grid's array is on the 1-D mask *)
Theorem C17_mirror_entries : forall (O : NumOps) d (g : @grid O) r, fits d g r = true -> entries (mirror_of d g r) = r.
Proof. exact @mirror_entries. Qed.
Theorem C17_mirror_one_entry_per_point : forall (O : NumOps) d (g : @grid O) r,
  fits d g r = true -> res1_size (entries (mirror_of d g r)) = n_points g.
Proof. exact @mirror_size. Qed.
Theorem C17_mirror_same_mask : forall (O : NumOps) d (m : @mask2 O) cs r,
  fits d (G2D m cs) r = true -> on_mask2 (mirror_of d (G2D m cs) r) = Some m.
Proof. exact @mirror_mask_2d. Qed.
Theorem C17_mirror_vector_carries_grid : forall (O : NumOps) (g : @grid O) r,
  fits ToVector g r = true -> attached_grid (mirror_of ToVector g r) = Some (coords_of g).
Proof. exact @mirror_vector_grid. Qed.
Theorem C17_mirror_1d_mask : forall (O : NumOps) (m : @mask1 O) xs v, on_mask1 (mirror_of ToArray (G1D m xs) (Vals v)) = Some m.
Proof. exact @mirror_mask_1d. Qed.

(* the three cases outside the mirror: an ndarray gets the function's own result; Grid1D through to_vector_yx is not
   implemented (explicit error value); a result of the wrong length on a uniform grid is refused *)
Theorem C17_ndarray_passthrough : forall (O : NumOps) d (f : @grid O -> res (@result O)) cs r,
  f (GRaw cs) = Ok (One r) -> maker_result d f (GRaw cs) = Ok (OOne (RawOne r)).
Proof. exact @maker_raw. Qed.
Theorem C17_vector_of_1d_rejected : forall (O : NumOps) (f : @grid O -> res (@result O)) (m : @mask1 O) xs r,
  f (eval_arg (G1D m xs)) = Ok r -> maker_result ToVector f (G1D m xs) = Raise OtherException.
Proof. exact @maker_vector_1d. Qed.
Theorem C17_wrong_length_rejected : forall (O : NumOps) (f : @grid O -> res (@result O)) (m : @mask2 O) cs v,
  f (G2D m cs) = Ok (One (Vals v)) -> length v <> count2 (bits2 m) -> maker_result ToArray f (G2D m cs) = Raise ArrayException.
Proof. exact @maker_wrong_length_2d. Qed.

(* ====================================================================== 2. coordinates: entry k <-> pixel k, the projected line *)

(* Grid2D.from_mask: coordinate k is the centre of the k-th unmasked pixel in row-major order (closed form) *)
Theorem C17_from_mask_coordinates : forall (m : @mask2 ROps),
  fst (ps2 m) <> 0 -> snd (ps2 m) <> 0 -> grid_via_mask m = spec_centres m.
Proof. exact grid_via_mask_spec. Qed.
Theorem C17_from_mask_one_per_unmasked_pixel : forall (O : NumOps) (m : @mask2 O), length (grid_via_mask m) = count2 (bits2 m).
Proof. exact @grid_via_mask_length. Qed.
(* end to end for a pointwise function h: entry k of the returned array is h at the centre of the k-th unmasked pixel *)
Theorem C17_entry_k_is_pixel_k : forall (h : @pt ROps -> R) (m : @mask2 ROps),
  fst (ps2 m) <> 0 -> snd (ps2 m) <> 0 ->
  maker_result ToArray (fun g : @grid ROps => Ok (One (@Vals ROps (map h (coords_of g))))) (grid2d_from_mask m)
  = Ok (OOne (@Array2D ROps m (map (fun px => h (pixel_centre m px)) (unmasked_px (bits2 m))))).
Proof. exact from_mask_entry_k. Qed.
Theorem C17_entry_k_is_pixel_k_pairs : forall (d : maker) (h : @pt ROps -> @pt ROps) (m : @mask2 ROps),
  d <> ToArray -> fst (ps2 m) <> 0 -> snd (ps2 m) <> 0 ->
  maker_result d (fun g : @grid ROps => Ok (One (@Pairs ROps (map h (coords_of g))))) (grid2d_from_mask m)
  = Ok (OOne (mirror_of d (G2D m (spec_centres m)) (@Pairs ROps (map (fun px => h (pixel_centre m px)) (unmasked_px (bits2 m)))))).
Proof. exact from_mask_pairs_entry_k. Qed.

(* a 1-D grid through to_array / to_grid: the function is evaluated on the line (0, x_k), the result is on the 1-D mask *)
Theorem C17_grid1d_evaluated_on_line : forall (d : maker) (f : @grid ROps -> res (@result ROps)) (m : @mask1 ROps) (xs : list R) r,
  f (GIrr (map (fun x : R => ((0, x) : @pt ROps)) xs)) = Ok (One r) -> fits d (G1D m xs) r = true ->
  maker_result d f (G1D m xs) = Ok (OOne (mirror_of d (G1D m xs) r)).
Proof. exact maker_1d. Qed.

(* project_grid on a uniform grid: the function is evaluated on the radially projected line -- point k is
   centre + k * step * (-sin, cos)(angle + 90 deg), k < floor(reach / step) + 1, where reach is the longest axis-parallel
   distance from the centre to the frame edge and step the pixel scale of that axis -- and the values come back as an
   unmasked Array1D with the grid's pixel scale *)
Theorem C17_projected_line : forall (m : @mask2 ROps) (c ang : @pt ROps) rc,
  0 < fst (ps2 m) -> 0 < snd (ps2 m) -> projected_2d m c ang rc = spec_projected m c ang rc.
Proof. exact projected_2d_spec. Qed.
Theorem C17_projected_line_point_k : forall (c ang : @pt ROps) step n k d, (k < n)%nat ->
  nth k (spec_line c ang step n false) d
  = (fst c - IZR (Z.of_nat k) * step * snd ang, snd c + IZR (Z.of_nat k) * step * fst ang).
Proof. exact spec_line_nth. Qed.
Theorem C17_projected_line_centre_removed : forall (c ang : @pt ROps) step n k d, (S k < n)%nat ->
  nth k (spec_line c ang step n true) d = spec_line_pt c ang step (S k).
Proof. exact spec_line_nth_removed. Qed.
Theorem C17_projected_line_length : forall (c ang : @pt ROps) step n rc,
  length (spec_line c ang step n rc) = if rc then (n - 1)%nat else n.
Proof. exact spec_line_length. Qed.
Theorem C17_project_uniform : forall (o : @profile ROps) rc (f : @grid ROps -> res (@result ROps)) (m : @mask2 ROps) cs v,
  0 < fst (ps2 m) -> 0 < snd (ps2 m) ->
  f (GIrr (spec_projected m (prof_centre o) (prof_angle90 o) rc)) = Ok (One (Vals v)) ->
  project_grid o rc f (G2D m cs) = Ok (OOne (Array1D (nomask1 (length v) (fst (ps2 m))) v)).
Proof. exact project_2d. Qed.
Theorem C17_project_grid1d : forall (o : @profile ROps) rc (f : @grid ROps -> res (@result ROps)) (m : @mask1 ROps) (xs : list R) v,
  f (GIrr (map (fun x : R => ((- (x * snd (prof_angle90 o)), x * fst (prof_angle90 o)) : @pt ROps)) xs)) = Ok (One (Vals v)) ->
  project_grid o rc f (G1D m xs) = Ok (OOne (Array1D (nomask1 (length v) (ps1 m)) v)).
Proof. exact project_1d. Qed.
Theorem C17_project_irregular : forall (o : @profile ROps) rc (f : @grid ROps -> res (@result ROps)) (cs : list (@pt ROps)) r,
  f (GIrr cs) = Ok (One r) ->
  project_grid o rc f (GIrr cs) = Ok (OOne (match r with Vals v => ArrayIrr v | Pairs p => GridIrr p end)).
Proof. exact project_irr. Qed.
Theorem C17_project_ndarray_rejected : forall (o : @profile ROps) rc (f : @grid ROps -> res (@result ROps)) (cs : list (@pt ROps)),
  project_grid o rc f (GRaw cs) = Raise OtherException.
Proof. exact project_raw. Qed.
(* the direction used is the profile's angle + 90 degrees *)
Theorem C17_project_angle_plus_90 : forall (c : option (@pt ROps)) (a : R),
  prof_angle90 {| centre := c; angle := Some (cos a, sin a) |} = (cos (a + PI / 2), sin (a + PI / 2)).
Proof. exact angle90_trig. Qed.
(* the model's rotation is the code's [r sin(theta - a), r cos(theta - a)] for every polar representation of the shifted point *)
Theorem C17_rotation_is_angle_difference : forall (c p : @pt ROps) (r theta a : R),
  snd p - snd c = r * cos theta -> fst p - fst c = r * sin theta ->
  to_ref c (cos a, sin a) p = (r * sin (theta - a), r * cos (theta - a)).
Proof. exact rotation_identity. Qed.

(* ====================================================================== 3. radial minimum *)

(* one coordinate with radius r = |p|: far -> the very same coordinate; near (0 < r < rmin) -> same ray, radius exactly rmin *)
Theorem C17_radial_min_far_unchanged : forall (rmin r : R) (p : @pt ROps), rmin <= r -> @moved_pt ROps rmin p r = p.
Proof. exact moved_far. Qed.
Theorem C17_radial_min_near_on_ray : forall (rmin r : R) (p : @pt ROps), 0 < r < rmin ->
  @moved_pt ROps rmin p r = (fst p * (rmin / r), snd p * (rmin / r)).
Proof. exact moved_near. Qed.
Theorem C17_radial_min_near_moved_to_rmin : forall (rmin : R) (p : @pt ROps), 0 < @radius ROps p < rmin ->
  @radius ROps (@moved_pt ROps rmin p (radius p)) = rmin.
Proof. exact moved_near_radius. Qed.
(* known finding D18: the hypothesis 0 < r cannot be dropped -- a coordinate AT the centre goes to (rmin, rmin), radius sqrt 2 * rmin *)
Theorem C17_radial_min_centre_goes_to_rmin_rmin : forall rmin : R, 0 < rmin -> @moved_pt ROps rmin (0, 0) 0 = (rmin, rmin).
Proof. exact moved_centre. Qed.
Theorem C17_radial_min_at_centre_refuted : exists (rmin : R) (p : @pt ROps),
  0 < rmin /\ @radius ROps p < rmin /\ @radius ROps (@moved_pt ROps rmin p (radius p)) <> rmin.
Proof. exact centre_refuted. Qed.

(* the decorator on a whole grid (Grid2D, Grid2DIrregular or ndarray), for every function f: f receives a grid of the same
   kind and mask with the same number of coordinates, coordinate k untouched if far, moved along its ray to radius rmin if
   near, and -- the centre excluded -- never closer than rmin *)
Theorem C17_relocate_grid : forall (A : Type) (rmin : R) (f : @grid ROps -> res A) (g : @grid ROps),
  not_1d g ->
  exists cs', @relocate ROps A (Some rmin) euclid f g = f (with_new_array g cs')
    /\ length cs' = length (coords_of g)
    /\ forall k d, (k < length (coords_of g))%nat ->
         let p := nth k (coords_of g) d in
         (rmin <= @radius ROps p -> nth k cs' d = p)
         /\ (0 < @radius ROps p < rmin ->
               nth k cs' d = (fst p * (rmin / @radius ROps p), snd p * (rmin / @radius ROps p)) /\ @radius ROps (nth k cs' d) = rmin)
         /\ (p <> (0, 0) -> rmin <= @radius ROps (nth k cs' d)).
Proof. exact @relocate_spec. Qed.
Theorem C17_relocate_needs_config_entry : forall (A : Type) (rad : @grid ROps -> list R) (f : @grid ROps -> res A) g,
  @relocate ROps A None rad f g = Raise OtherException.
Proof. exact @relocate_no_config. Qed.

(* ====================================================================== 4. transform and the usual stack *)

Theorem C17_transform_applied_once : forall (O : NumOps) (A : Type) (tf : @grid O -> @grid O) (f : bool -> @grid O -> A) g,
  transform tf (transform tf f) false g = f true (tf g).
Proof. exact @transform_once. Qed.
Theorem C17_transform_respects_flag : forall (O : NumOps) (A : Type) (tf : @grid O -> @grid O) (f : bool -> @grid O -> A) g,
  transform tf f true g = f true g.
Proof. exact @transform_flag. Qed.
(* to_X(transform(relocate(f))) = compute the argument, call f once, mirror the input grid *)
Theorem C17_stack_decomposes : forall (O : NumOps) d rmin (c a : @pt O) nested (f : @grid O -> res (@result O)) (g : @grid O),
  stack d rmin c a nested f g = bind (stack_arg rmin c a nested g) (fun x => bind (f x) (wrap d g)).
Proof. exact @stack_decompose. Qed.
(* for a profile with centre c and unit direction a: coordinate k reaches f as its profile-frame image, untouched if its
   distance from the CENTRE is >= rmin, moved along the ray from the centre to distance exactly rmin if 0 < distance < rmin;
   the result mirrors the ORIGINAL grid g *)
Theorem C17_stack_relocates_about_profile_centre :
  forall (d : maker) (rmin : R) (c a : @pt ROps) (f : @grid ROps -> res (@result ROps)) (g : @grid ROps),
  fst a * fst a + snd a * snd a = 1 -> not_1d g ->
  exists cs', @stack ROps d (Some rmin) c a false f g = bind (f (with_new_array g cs')) (wrap d g)
    /\ length cs' = length (coords_of g)
    /\ forall k d0, (k < length (coords_of g))%nat ->
         let p := nth k (coords_of g) d0 in let q := to_ref c a p in
         (rmin <= dist c p -> nth k cs' (to_ref c a d0) = q)
         /\ (0 < dist c p < rmin ->
               nth k cs' (to_ref c a d0) = (fst q * (rmin / dist c p), snd q * (rmin / dist c p))
               /\ @radius ROps (nth k cs' (to_ref c a d0)) = rmin)
         /\ (p <> c -> rmin <= @radius ROps (nth k cs' (to_ref c a d0))).
Proof. exact stack_spec. Qed.
Theorem C17_stack_nested_transforms_once : forall (rmin : option R) (c a : @pt ROps) (g : @grid ROps),
  @stack_arg ROps rmin c a true g =
  bind (@relocate_arg ROps rmin euclid (frame_tf c a (eval_arg g))) (fun g1 => @relocate_arg ROps rmin euclid g1).
Proof. exact stack_nested_arg. Qed.

(* the radial-minimum step leaves no coordinate closer than rmin (also at the centre, where it lands at sqrt 2 * rmin) and is
   therefore idempotent: a method whose body calls a second decorated method hands that one's function the same grid *)
Theorem C17_radial_min_never_closer : forall (rmin : R) (p : @pt ROps), rmin <= @radius ROps (@moved_pt ROps rmin p (radius p)).
Proof. exact moved_radius_ge_all. Qed.
Theorem C17_stack_nested_same_argument : forall (rmin : R) (c a : @pt ROps) (g : @grid ROps),
  @stack_arg ROps (Some rmin) c a true g = @stack_arg ROps (Some rmin) c a false g.
Proof. exact stack_nested_same. Qed.

(* ====================================================================== non-vacuity *)
(* a 2x3 mask with a masked corner and anisotropic scales; a function returning pairs; lists; the fits hypotheses *)
Local Close Scope R_scope.
(* ---------------------------------------------------------------------- 5. native storage (store_native=True, .native, results of
   arithmetic on such structures): the unmasked entries are what counts, whatever the masked entries of the array hold *)
Theorem C17_native_roundtrip : forall (A : Type) (junk : A) (bits : list bool) (v : list A),
  length v = count1 bits -> slim_by bits (native_by junk bits v) = v.
Proof. exact (@slim_by_native_by). Qed.
Theorem C17_native_slim_is_kth_unmasked : forall (A : Type) (bits : list bool) (v : list A),
  slim_by bits v = unmasked_of bits v.
Proof. exact (@slim_by_unmasked_of). Qed.
(* a natively stored Grid1D / Grid2D is, for every decorator, the slim grid with the same unmasked entries *)
Theorem C17_native_grid1d_is_slim_grid : forall (O : NumOps) (m : @mask1 O) (xs : list (T O)) (junk : T O),
  length xs = count1 (bits1 m) -> grid1d_of_native m (native_by junk (bits1 m) xs) = G1D m xs.
Proof. exact (@grid1d_native_is_slim). Qed.
Theorem C17_native_grid2d_is_slim_grid : forall (O : NumOps) (m : @mask2 O) (cs : list (@pt O)) (junk : @pt O),
  length cs = count2 (bits2 m) -> grid2d_of_native m (native_by junk (concat (bits2 m)) cs) = G2D m cs.
Proof. exact (@grid2d_native_is_slim). Qed.
(* to_array / to_grid / to_vector_yx on a natively stored Grid2D with a pointwise function written for native grids: entry k of
   the returned container is h at the coordinate of the k-th unmasked pixel, on the grid's mask *)
Theorem C17_native_grid2d_entry_k : forall (O : NumOps) (h : @pt O -> T O) (m : @mask2 O) (nc : list (@pt O)),
  length nc = length (concat (bits2 m)) ->
  maker_result_native ToArray (fun g => Ok (One (Vals (map h (coords_of g))))) m nc
  = Ok (OOne (Array2D m (map h (slim_by (concat (bits2 m)) nc)))).
Proof. exact (@native_grid2d_pointwise). Qed.
Theorem C17_native_grid2d_entry_k_pairs : forall (O : NumOps) (d : maker) (h : @pt O -> @pt O) (m : @mask2 O) (nc : list (@pt O)),
  d <> ToArray -> length nc = length (concat (bits2 m)) ->
  maker_result_native d (fun g => Ok (One (Pairs (map h (coords_of g))))) m nc
  = Ok (OOne (match d with
              | ToVector => Vector2D m (slim_by (concat (bits2 m)) nc) (map h (slim_by (concat (bits2 m)) nc))
              | _ => Grid2D m (map h (slim_by (concat (bits2 m)) nc))
              end)).
Proof. exact (@native_grid2d_pointwise_pairs). Qed.

(* ---------------------------------------------------------------------- 6. histories on living grid / profile objects.
   A history (decorated calls, any decorator and profile object, and the user's in-place edits grid[k] = p between them) is
   accepted exactly when every call, taken as a single fresh call on the contents that the user's edits -- and nothing else --
   left in the grid, is accepted and left the grid's array as it was: the result after a history is the pure function of the
   current contents. *)
Theorem C17_history_calls_are_pure : forall (cen : @mask2 QOps -> list ptQ) (chk : callc -> gspec -> bool) (l : list hstep)
    (gs : list gspec) (i gi : nat) (c : callc) (post : list ptQ),
  hist_ok cen chk gs l = true -> nth_error l i = Some (HCall gi c post) ->
  exists s, nth_error (state_after cen gs (firstn i l)) gi = Some s
            /\ chk c s = true /\ list_eqb peq (stored cen s) post = true.
Proof. exact hist_ok_calls. Qed.
Theorem C17_history_accepts_pure_calls : forall (cen : @mask2 QOps -> list ptQ) (chk : callc -> gspec -> bool) (l : list hstep)
    (gs : list gspec),
  (forall i gi k p, nth_error l i = Some (HEdit gi k p) -> nth_error (state_after cen gs (firstn i l)) gi <> None) ->
  (forall i gi c post, nth_error l i = Some (HCall gi c post) ->
     exists s, nth_error (state_after cen gs (firstn i l)) gi = Some s
               /\ chk c s = true /\ list_eqb peq (stored cen s) post = true) ->
  hist_ok cen chk gs l = true.
Proof. exact hist_ok_intro. Qed.
Theorem C17_history_verdict_is_per_call : forall e gs l i gi c post,
  agree (KHist e gs l) = true -> nth_error l i = Some (HCall gi c post) ->
  exists s, nth_error (state_after (@grid_via_mask QOps) gs (firstn i l)) gi = Some s
            /\ agree_call (unit_of e) c s = true /\ list_eqb peq (stored (@grid_via_mask QOps) s) post = true.
Proof. exact agree_hist_calls. Qed.

Local Open Scope Q_scope.
Definition ex_mask : @mask2 QOps :=
  @Build_mask2 QOps [[true; false; false]; [false; false; true]] (2 # 1, 1 # 2) (1 # 2, 1 # 4).
Example C17_hyps_mirror_satisfiable :
  let g := grid2d_from_mask ex_mask in
  let pairs := @Pairs QOps [(1, 2); (3, 4); (5, 6); (7, 8)] in
  coords_of g = [(3 # 2, 1 # 4); (3 # 2, 3 # 4); (- 1 # 2, - 1 # 4); (- 1 # 2, 1 # 4)]
  /\ fits ToArray g (@Vals QOps [1; 2; 3; 4]) = true
  /\ fits ToVector g pairs = true
  /\ forallb (fits ToGrid g) [pairs; @Pairs QOps (coords_of g)] = true
  /\ fits ToArray (G1D (@Build_mask1 QOps [true; false; false] 1 0) [1 # 2; 3 # 2]) (@Vals QOps [5; 6]) = true
  /\ rout_near 1 (maker_result ToArray (uapply (@F1 QOps (@FV QOps (@SAff QOps 3 1 0)))) g)
               (Ok (OOne (@Array2D QOps ex_mask [19 # 4; 21 # 4; - 7 # 4; - 5 # 4]))) = true
  /\ @spec_centres QOps ex_mask = coords_of g.
Proof. vm_compute. repeat split. Qed.
(* the projected line of that mask about centre (1/2, -1/4) along the 3-4-5 direction: 2 points, step = the y pixel scale (the longer reach is along y) *)
Example C17_hyps_projected_satisfiable :
  @spec_projected QOps ex_mask (1 # 2, - 1 # 4) (3 # 5, 4 # 5) false
  = [(1 # 2, - 1 # 4); (- 11 # 10, 19 # 20)] /\
  @projected_2d QOps ex_mask (1 # 2, - 1 # 4) (3 # 5, 4 # 5) false = [(1 # 2, - 1 # 4); (- 11 # 10, 19 # 20)].
Proof. vm_compute. repeat split. Qed.
(* native storage: mask x O O x, array (9, 1, 2, 9): the slim content is (1, 2); a history: edit entry 1 of an irregular grid *)
Example C17_hyps_native_history_satisfiable :
  slim_by [true; false; false; true] [9; 1; 2; 9] = [1; 2]
  /\ native_by 0 [true; false; false; true] [1; 2] = [0; 1; 2; 0]
  /\ count1 [true; false; false; true] = 2%nat
  /\ state_after (@spec_centres QOps) [SIrr [(1, 2); (3, 4)]]
       [HEdit 0 1 (5, 6); HCall 0 (CMake ToArray (@F1 QOps (@FV QOps (@SAff QOps 1 1 0))) [(1, 2); (5, 6)]
                                     (Ok (OOne (@ArrayIrr QOps [3; 11])))) [(1, 2); (5, 6)]]
     = [SIrr [(1, 2); (5, 6)]]
  /\ check (KHist 0 [SIrr [(1, 2); (3, 4)]]
       [HEdit 0 1 (5, 6); HCall 0 (CMake ToArray (@F1 QOps (@FV QOps (@SAff QOps 1 1 0))) [(1, 2); (5, 6)]
                                     (Ok (OOne (@ArrayIrr QOps [3; 11])))) [(1, 2); (5, 6)]]) = 0%nat.
Proof. vm_compute. repeat split. Qed.
Local Close Scope Q_scope.
Local Open Scope R_scope.
(* near / far / not-the-centre hypotheses: p = (3/4, 1) has radius 5/4 *)
Example C17_hyps_radial_satisfiable :
  @radius ROps (3 / 4, 1) = 5 / 4 /\ 0 < @radius ROps (3 / 4, 1) < 5 / 2 /\ 1 <= @radius ROps (3 / 4, 1)
  /\ ((3 / 4, 1) : @pt ROps) <> (0, 0) /\ (3 / 5) * (3 / 5) + (4 / 5) * (4 / 5) = 1
  /\ not_1d (G2D (@Build_mask2 ROps [[false]] (1, 1) (0, 0)) [(3 / 4, 1)]).
Proof.
  assert (E : @radius ROps (3 / 4, 1) = 5 / 4).
  { unfold radius, norm2, sq. cbn [sqrtT add mul ROps fst snd].
    replace (3 / 4 * (3 / 4) + 1 * 1) with ((5 / 4) * (5 / 4)) by lra. apply sqrt_square. lra. }
  rewrite E. repeat split; try lra.
  - intros H. inversion H. lra.
  - intros m xs H. discriminate.
Qed.

(* ====================================================================== 7. class dispatch: SUBCLASS instances (Model/C17x.v)
   An object handed to a decorator = the MRO of its class + the data it holds.  [well_classed mro c]: the accepted class c
   (Grid2D / Grid2DIrregular / Grid1D / ndarray) lies somewhere along the MRO and no other accepted class does -- the class
   itself, aa.Grid2DIrregularUniform, any class a user derives from an accepted class, a class derived from that ... *)
Local Close Scope R_scope.
(* the isinstance chain of AbstractMaker.result / project_grid selects the branch of the accepted class, however far down the MRO it lies *)
Theorem C17_subclass_dispatches_as_base : forall (mro : list cname) (c : cname),
  c <> NOther -> well_classed mro c -> dispatch mro = branch_of_class c.
Proof. exact dispatch_well_classed. Qed.
(* deriving a further class changes neither the branch nor the classification *)
Theorem C17_deriving_keeps_branch : forall (mro : list cname), dispatch (NOther :: mro) = dispatch mro.
Proof. exact dispatch_derive. Qed.
Theorem C17_deriving_keeps_class : forall (mro : list cname) (c : cname),
  c <> NOther -> (well_classed (NOther :: mro) c <-> well_classed mro c).
Proof. exact well_classed_derive. Qed.
(* hence, for every user function and every decorator, a subclass instance gets exactly the base class' result: same
   container kind, mask and entries (all the theorems of parts 1-6 apply to it) *)
Theorem C17_subclass_maker_result_is_base : forall (O : NumOps) (d : maker) (f : @grid O -> res (@result O)) (mro : list cname) (g : @grid O),
  well_classed mro (class_of g) -> maker_result_obj d f mro g = maker_result d f g.
Proof. exact @maker_result_subclass. Qed.
Theorem C17_subclass_project_grid_is_base : forall (O : NumOps) (o : @profile O) (rc : bool) (f : @grid O -> res (@result O))
  (mro : list cname) (g : @grid O),
  well_classed mro (class_of g) -> project_grid_obj o rc f mro g = project_grid o rc f g.
Proof. exact @project_grid_subclass. Qed.
(* a look-up keyed by type(grid) is NOT this behaviour: an instance of a class derived from Grid2DIrregular would fall through *)
Theorem C17_exact_type_dispatch_refuted :
  let mro := [NOther; NGrid2DIrregular; NOther] in
  well_classed mro NGrid2DIrregular /\ dispatch mro = BIrregular /\ dispatch_exact mro = BRaw.
Proof. exact exact_type_dispatch_refuted. Qed.
(* the wrapped correspondence case: accepted by the specification side iff the inner case is and every object's class
   derives from exactly the accepted class of its data *)
Theorem C17_wrapped_case_spec : forall mros k,
  spec_ok_x (KObj mros k) = true ->
  spec_ok k = true /\ Forall (fun ms => well_classed (fst ms) (spec_class (snd ms))) (combine mros (grids_of k)).
Proof. exact spec_ok_x_sound. Qed.
Theorem C17_wrapped_case_agree : forall mros k, agree_x (KObj mros k) = true -> agree k = true.
Proof. exact agree_x_sound. Qed.
Local Open Scope Q_scope.
(* non-vacuity: aa.Grid2DIrregularUniform / PavPavGrid2D / PavGrid1D / a view of an ndarray subclass; an accepted wrapped case *)
Example C17_hyps_subclass_satisfiable :
  well_classed [NOther; NGrid2DIrregular; NOther; NOther; NOther; NOther] NGrid2DIrregular
  /\ well_classed [NOther; NOther; NGrid2D; NOther; NOther; NOther; NOther] NGrid2D
  /\ well_classed [NOther; NGrid1D; NOther] (class_of (G1D (@Build_mask1 QOps [false] 1 0) [1]))
  /\ well_classed [NOther; NNdarray; NOther] NNdarray
  /\ dispatch [NOther; NOther; NGrid2D; NOther] = BUniform
  /\ checkx (KObj [[NOther; NGrid2DIrregular; NOther]]
        (KMake ToArray (SIrr [(1, 2); (5, 6)]) (@F1 QOps (@FV QOps (@SAff QOps 1 1 0))) [(1, 2); (5, 6)]
               (Ok (OOne (@ArrayIrr QOps [3; 11]))))) = 0%nat
  /\ checkx (KObj [[NOther; NGrid2DIrregular; NOther]]
        (KMake ToArray (SIrr [(1, 2); (5, 6)]) (@F1 QOps (@FV QOps (@SAff QOps 1 1 0))) [(1, 2); (5, 6)]
               (Ok (OOne (@RawOne QOps (@Vals QOps [3; 11])))))) = 2%nat.
Proof.
  repeat split; try (apply well_classedb_iff; vm_compute; reflexivity); vm_compute; reflexivity.
Qed.
Local Close Scope Q_scope.

Print Assumptions C17_maker_mirrors_grid. Print Assumptions C17_maker_mirrors_lists. Print Assumptions C17_maker_propagates_errors.
Print Assumptions C17_mirror_entries. Print Assumptions C17_mirror_one_entry_per_point. Print Assumptions C17_mirror_same_mask.
Print Assumptions C17_mirror_vector_carries_grid. Print Assumptions C17_mirror_1d_mask. Print Assumptions C17_ndarray_passthrough.
Print Assumptions C17_vector_of_1d_rejected. Print Assumptions C17_wrong_length_rejected.
Print Assumptions C17_from_mask_coordinates. Print Assumptions C17_from_mask_one_per_unmasked_pixel.
Print Assumptions C17_entry_k_is_pixel_k. Print Assumptions C17_entry_k_is_pixel_k_pairs. Print Assumptions C17_grid1d_evaluated_on_line.
Print Assumptions C17_projected_line. Print Assumptions C17_projected_line_point_k. Print Assumptions C17_projected_line_centre_removed.
Print Assumptions C17_projected_line_length. Print Assumptions C17_project_uniform. Print Assumptions C17_project_grid1d.
Print Assumptions C17_project_irregular. Print Assumptions C17_project_ndarray_rejected. Print Assumptions C17_project_angle_plus_90.
Print Assumptions C17_rotation_is_angle_difference.
Print Assumptions C17_radial_min_far_unchanged. Print Assumptions C17_radial_min_near_on_ray.
Print Assumptions C17_radial_min_near_moved_to_rmin. Print Assumptions C17_radial_min_centre_goes_to_rmin_rmin.
Print Assumptions C17_radial_min_at_centre_refuted. Print Assumptions C17_relocate_grid. Print Assumptions C17_relocate_needs_config_entry.
Print Assumptions C17_transform_applied_once. Print Assumptions C17_transform_respects_flag. Print Assumptions C17_stack_decomposes.
Print Assumptions C17_stack_relocates_about_profile_centre. Print Assumptions C17_stack_nested_transforms_once.
Print Assumptions C17_radial_min_never_closer. Print Assumptions C17_stack_nested_same_argument.
Print Assumptions C17_native_roundtrip. Print Assumptions C17_native_slim_is_kth_unmasked. Print Assumptions C17_native_grid1d_is_slim_grid.
Print Assumptions C17_native_grid2d_is_slim_grid. Print Assumptions C17_native_grid2d_entry_k. Print Assumptions C17_native_grid2d_entry_k_pairs.
Print Assumptions C17_history_calls_are_pure. Print Assumptions C17_history_accepts_pure_calls. Print Assumptions C17_history_verdict_is_per_call.
Print Assumptions C17_subclass_dispatches_as_base. Print Assumptions C17_deriving_keeps_branch. Print Assumptions C17_deriving_keeps_class.
Print Assumptions C17_subclass_maker_result_is_base. Print Assumptions C17_subclass_project_grid_is_base.
Print Assumptions C17_exact_type_dispatch_refuted. Print Assumptions C17_wrapped_case_spec. Print Assumptions C17_wrapped_case_agree.
