(* C04, part 5 -- the Preloads.curvature_matrix branch (Model/C04Pre.v): two instances made with the same Preloads object, read in any
   orders any number of times, return the pure values, and the caller's preloaded array is never written -- because of the
   copy.copy; without it the claim fails. *)
From Coq Require Import ZArith Reals Lra Lia List Bool Arith.
From PAV Require Import Base.Res Base.NumOps Base.Sum Model.C03 Model.C04 Model.C04Pre.
From PAV Require Import Proofs.C04c.
Import ListNotations.
Local Open Scope R_scope.

Section PreReads.
  Variables (objs : list (@lobj ROps)) (Bv : @mat ROps) (Dv : list R) (Fp H : @mat ROps) (p : nat).
  Notation FRp := (FRv objs Fp H).

  (* cell [p] holds the preloaded value; the cached arrays of the instance are OTHER cells holding F resp. F + H *)
  Definition pre_ok (st : @istate ROps) : Prop :=
    ((p < length (i_heap st))%nat /\ hcell (i_heap st) p = Fp) /\
    (forall c, i_F st = Some c -> (c < length (i_heap st))%nat /\ hcell (i_heap st) c = Fp /\ c <> p) /\
    (forall c, i_FR st = Some c -> (c < length (i_heap st))%nat /\ hcell (i_heap st) c = FRp /\ c <> p).

  Lemma hcell_upd_other (h : list (@mat ROps)) c x t : (c < length h)%nat -> t <> c -> hcell (upd_set h c x) t = hcell h t.
  Proof.
    intros Hc Ht. unfold hcell. rewrite nth_upd_set by exact Hc.
    destruct (Nat.eqb c t) eqn:E; [apply Nat.eqb_eq in E; congruence | reflexivity].
  Qed.

  Lemma read_F_pre_ok st : pre_ok st ->
    let '(st1, c) := read_F_pre true p st in
    pre_ok st1 /\ (c < length (i_heap st1))%nat /\ hcell (i_heap st1) c = Fp /\ c <> p /\ i_F st1 = Some c /\ i_FR st1 = i_FR st.
  Proof.
    intros [[Hp Hpv] [HF HR]]. unfold read_F_pre. destruct (i_F st) as [c|] eqn:EF; cbv beta iota.
    - destruct (HF c eq_refl) as (Hc & Hv & Hn).
      split; [split; [split; assumption | split; [intros c' E'; apply HF; congruence | exact HR]]|].
      repeat split; auto.
    - unfold read_F. rewrite EF. rewrite Hpv.
      split; [split; [|split]|]; cbn [i_heap i_F i_FR]; rewrite ?app_length; cbn [length].
      + split; [lia|]. now rewrite hcell_app_old.
      + intros c' E'. injection E' as <-. split; [lia|]. split; [apply hcell_app_new | lia].
      + intros c' E'. destruct (HR c' E') as (Hc' & Hv' & Hn'). split; [lia|]. split; [now rewrite hcell_app_old | exact Hn'].
      + split; [lia|]. split; [apply hcell_app_new|]. split; [lia|]. split; reflexivity.
  Qed.

  Lemma read_FR_pre_ok st : pre_ok st ->
    let '(st1, c) := read_FR_pre true p objs H st in
    pre_ok st1 /\ (c < length (i_heap st1))%nat /\ hcell (i_heap st1) c = FRp.
  Proof.
    intros Hok. unfold read_FR_pre. destruct (i_FR st) as [c|] eqn:ER; cbv beta iota.
    - pose proof Hok as [_ [_ HR]]. destruct (HR c ER) as (Hc & Hv & _). split; [exact Hok|]. split; auto.
    - pose proof (read_F_pre_ok st Hok) as HrF. destruct (read_F_pre true p st) as [st1 c].
      destruct HrF as ([[Hp Hpv] [HF1 HR1]] & Hc & Hv & Hn & EF1 & ER1). rewrite ER in ER1.
      unfold pre_ok, FRv in *. destruct (existsb (@has_reg ROps) objs) eqn:Ereg; cbn [negb]; cbv beta iota.
      + destruct (Nat.eqb (length objs) 1).
        * (* F + H written INTO the instance's own copy: the preloaded cell is another one *)
          split; [split; [|split]|]; cbn [i_heap i_F i_FR]; rewrite ?upd_set_length.
          -- split; [exact Hp|]. rewrite hcell_upd_other by auto. exact Hpv.
          -- intros c' E'. discriminate.
          -- intros c' E'. injection E' as <-. split; [exact Hc|]. split; [|exact Hn].
             rewrite hcell_upd_same by exact Hc. now rewrite Hv.
          -- split; [exact Hc|]. rewrite hcell_upd_same by exact Hc. now rewrite Hv.
        * split; [split; [|split]|]; cbn [i_heap i_F i_FR]; rewrite ?app_length; cbn [length].
          -- split; [lia|]. now rewrite hcell_app_old.
          -- intros c' E'. destruct (HF1 c' E') as (Hc' & Hv' & Hn'). split; [lia|]. split; [now rewrite hcell_app_old | exact Hn'].
          -- intros c' E'. injection E' as <-. split; [lia|]. split; [|lia]. rewrite hcell_app_new. now rewrite Hv.
          -- split; [lia|]. rewrite hcell_app_new. now rewrite Hv.
      + split; [split; [|split]|]; cbn [i_heap i_F i_FR].
        -- split; assumption.
        -- exact HF1.
        -- intros c' E'. injection E' as <-. split; [exact Hc|]. split; [exact Hv | exact Hn].
        -- split; [exact Hc | exact Hv].
  Qed.

  Lemma rstep_pre_pure st q : pre_ok st ->
    let '(st1, v) := rstep_pre true p objs Bv Dv H st q in pre_ok st1 /\ v = rpure objs Bv Dv Fp H q.
  Proof.
    intros Hok. destruct q; cbn [rstep_pre rpure].
    - split; [exact Hok | reflexivity].
    - split; [exact Hok | reflexivity].
    - pose proof (read_F_pre_ok st Hok) as HrF. destruct (read_F_pre true p st) as [st1 c]. destruct HrF as (Hok1 & _ & Hv & _).
      split; [exact Hok1 | now rewrite Hv].
    - pose proof (read_FR_pre_ok st Hok) as HrR. destruct (read_FR_pre true p objs H st) as [st1 c]. destruct HrR as (Hok1 & _ & Hv).
      split; [exact Hok1 | now rewrite Hv].
    - pose proof (read_FR_pre_ok st Hok) as HrR. destruct (read_FR_pre true p objs H st) as [st1 c]. destruct HrR as (Hok1 & _).
      split; [exact Hok1 | reflexivity].
  Qed.

  Theorem rrun_pre_pure qs : forall st, pre_ok st ->
    let '(st1, vs) := rrun_pre true p objs Bv Dv H st qs in pre_ok st1 /\ vs = map (rpure objs Bv Dv Fp H) qs.
  Proof.
    induction qs as [|q t IH]; intros st Hok; [split; [exact Hok | reflexivity]|].
    cbn [rrun_pre map]. pose proof (rstep_pre_pure st q Hok) as Hs. destruct (rstep_pre true p objs Bv Dv H st q) as [st1 v].
    destruct Hs as [Hok1 ->]. specialize (IH st1 Hok1). destruct (rrun_pre true p objs Bv Dv H st1 t) as [st2 vs].
    destruct IH as [Hok2 ->]. split; [exact Hok2 | reflexivity].
  Qed.

  Lemma pre_ok_fresh st : pre_ok st -> pre_ok (fresh_instance st).
  Proof. intros [Hp _]. split; [exact Hp|]. split; intros c E; discriminate. Qed.
End PreReads.

(* two instances sharing one Preloads object: every read of both returns the pure value of the preloaded matrix, and the caller's
   array still holds it afterwards *)
Theorem two_instances_pure (objs : list (@lobj ROps)) (Bv : @mat ROps) (Dv : list R) (Fp H : @mat ROps) qs1 qs2 :
  two_instances true objs Bv Dv Fp H qs1 qs2 = (map (rpure objs Bv Dv Fp H) qs1, map (rpure objs Bv Dv Fp H) qs2, Fp).
Proof.
  unfold two_instances.
  assert (H0 : pre_ok objs Fp H 0 {| i_heap := [Fp]; i_F := None; i_FR := None |}).
  { split; [split; [cbn; lia | reflexivity]|]. split; intros c E; discriminate. }
  pose proof (rrun_pre_pure objs Bv Dv Fp H 0%nat qs1 _ H0) as H1.
  destruct (rrun_pre true 0 objs Bv Dv H {| i_heap := [Fp]; i_F := None; i_FR := None |} qs1) as [st1 o1]. destruct H1 as [Hok1 ->].
  pose proof (rrun_pre_pure objs Bv Dv Fp H 0%nat qs2 _ (pre_ok_fresh objs Fp H 0%nat st1 Hok1)) as H2.
  destruct (rrun_pre true 0 objs Bv Dv H (fresh_instance st1) qs2) as [st2 o2]. destruct H2 as [[[_ Hpv] _] ->].
  now rewrite Hpv.
Qed.

(* without the copy.copy: a single regularized object; the first instance's curvature_reg_matrix adds H into the caller's array and
   the second instance's curvature_matrix returns F + H *)
Theorem two_instances_without_copy_refuted :
  exists (objs : list (@lobj ROps)) (Bv : @mat ROps) (Dv : list R) (Fp H : @mat ROps) (qs1 qs2 : list rq),
    two_instances false objs Bv Dv Fp H qs1 qs2 <> (map (rpure objs Bv Dv Fp H) qs1, map (rpure objs Bv Dv Fp H) qs2, Fp).
Proof.
  exists [@LMapper ROps (@Build_enc ROps [] [] []) [] 1%nat true], [], [], [[1]], [[1]], [RFR], [RF].
  cbn. unfold hcell. cbn. intros E. injection E as E1 E2. lra.
Qed.
