(* C20 -- correspondence checker (executed at Q inside Coq by vm_compute): the case type (one constructor per observed
   operation: inputs AND what the implementation returned), [agree] (model output = implementation output) and
   [spec_ok] (the specification accepts the implementation's output; never calls the routines of the model).
   Every inexact comparison takes its tolerance from the case: [tl = (length tolerance, squared-length tolerance)],
   chosen by the harness RELATIVE to the scale of the triangles (1e-9 * side, never an absolute 1e-9), so that sets of
   triangles of side 2^-40 are compared as sharply as sets of side 1.  No proofs here. *)
From Coq Require Import ZArith List Bool QArith Qabs.
From PAV Require Import Base.Res Base.Check Base.NumOps Model.C20 Model.C20Rewire.
Import ListNotations.

Definition qpt : Type := (Q * Q)%type.
Definition qtri : Type := (qpt * qpt * qpt)%type.
Definition qatri : Type := (list idx3 * list qpt)%type.
Definition qcs : Type := cs QOps.
Definition mkq : list zpt -> Q -> Q -> Q -> bool -> qcs := @mkcs QOps.
Definition qshape : Type := shape QOps.
Definition QPoint : qpt -> qshape := @SPoint QOps.
Definition QCircle : qpt -> Q -> qshape := @SCircle QOps.
Definition QTriangle : qpt -> qpt -> qpt -> qshape := @STriangle QOps.
Definition QPolygon : list qpt -> qshape := @SPolygon QOps.
Definition QSquare : Q -> Q -> Q -> Q -> qshape := @SSquare QOps.

(* compact input syntax for the generated case files (a double is m * 2^e): fewer characters and monomorphic constructors
   make the elaboration of the case lists several times faster than nested pairs of [Qmake] literals *)
Definition D (m e : Z) : Q :=
  if (e <? 0)%Z then Qmake m (Pos.shiftl 1 (Z.to_N (- e))) else inject_Z (Z.shiftl m e).
Definition P (a b c d : Z) : qpt := (D a b, D c d).
Definition Tr (a b c : qpt) : qtri := (a, b, c).
Definition I3 (a b c : Z) : idx3 := (Z.to_nat a, Z.to_nat b, Z.to_nat c).
Definition Zp (a b : Z) : zpt := (a, b).
Definition NL (l : list Z) : list nat := map Z.to_nat l.
Definition Ed (j : Z) (p : qpt) : nat * qpt := (Z.to_nat j, p).
Definition Rw (j : Z) (r : idx3) : nat * idx3 := (Z.to_nat j, r).

(* tolerances of a case: lengths / coordinates, and squared lengths / areas of ONE triangle *)
Definition tols : Type := (Q * Q)%type.
Definition tlen (tl : tols) : Q := fst tl.
Definition tsq (tl : tols) : Q := snd tl.
Definition qclose (t a b : Q) : bool := Qabs_le_tol t a b.
(* ex = true: exact comparison (dyadic inputs); ex = false: within the length tolerance of the case *)
Definition mode : Type := (bool * tols)%type.
Definition exact : mode := (true, (0, 0)).
Definition apx (tl : tols) : mode := (false, tl).
Definition qcmp (ex : mode) (a b : Q) : bool := if fst ex then Qeq_bool a b else qclose (tlen (snd ex)) a b.
(* squared lengths / areas of n triangles *)
Definition qcmp_sq (ex : mode) (n : nat) (a b : Q) : bool :=
  if fst ex then Qeq_bool a b else qclose (tsq (snd ex) * inject_Z (Z.of_nat n)) a b.
(* vm_compute is call-by-value: [a && b] evaluates both sides.  The quadratic set comparisons below use
   explicitly lazy connectives. *)
Notation "a &&& b" := (if a then b else false) (at level 40, left associativity).
Notation "a ||| b" := (if a then true else b) (at level 50, left associativity).
Fixpoint lexistsb {A} (f : A -> bool) (l : list A) : bool :=
  match l with [] => false | x :: t => if f x then true else lexistsb f t end.
Fixpoint lforallb {A} (f : A -> bool) (l : list A) : bool :=
  match l with [] => true | x :: t => if f x then lforallb f t else false end.
Definition pt_cmp (ex : mode) (p q : qpt) : bool := qcmp ex (fst p) (fst q) &&& qcmp ex (snd p) (snd q).
Definition tri_cmp (ex : mode) (s t : qtri) : bool :=
  pt_cmp ex (fst (fst s)) (fst (fst t)) &&& pt_cmp ex (snd (fst s)) (snd (fst t)) &&& pt_cmp ex (snd s) (snd t).
(* same triangle up to the order of its corners *)
Definition tri_same (ex : mode) (s t : qtri) : bool :=
  let '(a, b, c) := t in
  tri_cmp ex s (a, b, c) ||| tri_cmp ex s (a, c, b) ||| tri_cmp ex s (b, a, c)
  ||| tri_cmp ex s (b, c, a) ||| tri_cmp ex s (c, a, b) ||| tri_cmp ex s (c, b, a).
(* the sum of the first components is invariant under corner order: a cheap first test *)
Definition xsum (t : qtri) : Q := Qred (fst (fst (fst t)) + fst (snd (fst t)) + fst (snd t)).
Definition key_close (ex : mode) (a b : Q) : bool := if fst ex then Qeq_bool a b else Qabs_le_tol (4 * tlen (snd ex)) a b.
Definition tris_subset (ex : mode) (l1 l2 : list qtri) : bool :=
  let k2 := map (fun t => (xsum t, t)) l2 in
  lforallb (fun s => let ks := xsum s in
              lexistsb (fun kt : Q * qtri => key_close ex ks (fst kt) &&& tri_same ex s (snd kt)) k2) l1.
Definition tris_same_set (ex : mode) (l1 l2 : list qtri) : bool := tris_subset ex l1 l2 &&& tris_subset ex l2 l1.
Definition idx_eqb : list idx3 -> list idx3 -> bool := list_eqb idx3_eqb.
Definition atri_eqb (A B : qatri) : bool := idx_eqb (fst A) (fst B) && list_eqb (pt_cmp exact) (snd A) (snd B).
Definition zpts_eqb : list zpt -> list zpt -> bool := list_eqb zpt_eqb.
Definition cs_cmp (tl : tols) (Sg R : qcs) : bool :=
  zpts_eqb (c_coords Sg) (c_coords R) && qclose (tlen tl) (c_side Sg) (c_side R) && qclose (tlen tl) (c_xoff Sg) (c_xoff R)
  && qclose (tlen tl) (c_yoff Sg) (c_yoff R) && Bool.eqb (c_flipped Sg) (c_flipped R).
Definition qtris (A : qatri) : list qtri := @a_triangles QOps A.
Definition idx_ok (A : qatri) : bool := idx_in_range A.

Inductive case :=
| KATris (A : qatri) (out : list qtri)                        (* ArrayTriangles(...).triangles *)
| KATrisRes (A : qatri) (out : res (list qtri))               (* possibly out-of-range index rows *)
| KAArea (tl : tols) (ex : bool) (A : qatri) (out : Q)
  (* the user wrote A.vertices[j] = p (in place) for each (j, p) of [es], then read A.triangles *)
| KAEdits (A : qatri) (es : list (nat * qpt)) (out : list qtri)
  (* the user wrote A.indices[r] = row (in place) for each (r, row) of [es], then read A.triangles *)
| KARewires (A : qatri) (es : list (nat * idx3)) (out : list qtri)
| KAUp (tl : tols) (ex : bool) (A out : qatri)
| KANbr (tl : tols) (ex : bool) (A out : qatri)
| KAFor (tl : tols) (ex : bool) (A : qatri) (sel : list nat) (out : qatri)
| KAWith (A : qatri) (vs : list qpt) (out : list qtri)
| KAContain (A : qatri) (s : qshape) (out : list nat)
| KShapeInit (tl : tols) (s : qshape) (out : res qpt)          (* constructor: reference point or exception *)
| KALimits (tl : tols) (h y_min y_max x_min x_max scale : Q) (out : qatri)
| KCTris (tl : tols) (h : Q) (Sg : qcs) (out : list qtri)
| KCArea (tl : tols) (h : Q) (Sg : qcs) (out : Q)
  (* in_tris / out_tris: what .triangles returned for the input / output structure *)
| KCUp (tl : tols) (h : Q) (Sg : qcs) (in_tris : list qtri) (out : qcs) (out_tris : list qtri)
| KCNbr (tl : tols) (h : Q) (Sg : qcs) (in_tris : list qtri) (out : qcs) (out_tris : list qtri)
| KCFor (tl : tols) (h : Q) (Sg : qcs) (in_tris : list qtri) (sel : list nat) (out : qcs) (out_tris : list qtri)
| KCRepr (tl : tols) (h : Q) (Sg : qcs) (out : qatri)           (* (indices, vertices) of the coordinate array *)
| KCContain (tl : tols) (h : Q) (Sg : qcs) (in_tris : list qtri) (s : qshape) (out : list nat)
| KCLimits (tl : tols) (h x_min x_max y_min y_max scale : Q) (out : qcs).

Definition agree (k : case) : bool :=
  match k with
  | KATris A out => list_eqb (tri_cmp exact) (qtris A) out
  | KATrisRes A out => res_eqb (list_eqb (tri_cmp exact)) (@a_triangles_checked QOps A) out
  | KAArea tl ex A out => qcmp_sq (ex, tl) (length (fst A)) (@a_area QOps A) out
  | KAEdits A es out => list_eqb (tri_cmp exact) (qtris (@a_edits QOps A es)) out
  | KARewires A es out => list_eqb (tri_cmp exact) (qtris (@a_rewires QOps A es)) out
  | KAUp tl ex A out =>
      if ex then atri_eqb (@a_up_sample QOps A) out
      else list_eqb (tri_cmp (apx tl)) (qtris (@a_up_sample QOps A)) (qtris out)
  | KANbr tl ex A out =>
      if ex then atri_eqb (@a_neighborhood QOps A) out
      else tris_same_set (apx tl) (qtris (@a_neighborhood QOps A)) (qtris out)
  | KAFor tl ex A sel out =>
      if ex then atri_eqb (@a_for_indexes QOps A sel) out
      else list_eqb (tri_cmp (apx tl)) (qtris (@a_for_indexes QOps A sel)) (qtris out)
  | KAWith A vs out => list_eqb (tri_cmp exact) (qtris (@a_with_vertices QOps A vs)) out
  | KAContain A s out => list_eqb Nat.eqb (@a_containing QOps A s) out
  | KShapeInit tl s out =>
      res_eqb (pt_cmp (apx tl)) (match @shape_init QOps s with Ok s' => Ok (@shape_ref QOps s') | Raise e => Raise e end) out
  | KALimits tl h y0 y1 x0 x1 sc out =>
      let m := @a_for_limits_and_scale QOps h y0 y1 x0 x1 sc in
      idx_eqb (fst m) (fst out) && list_eqb (pt_cmp (apx tl)) (snd m) (snd out)
  | KCTris tl h Sg out => list_eqb (tri_cmp (apx tl)) (@c_triangles QOps h Sg) out
  | KCArea tl h Sg out => qcmp_sq (apx tl) (length (c_coords Sg)) (@c_area QOps h Sg) out
  | KCUp tl h Sg it out ot =>
      list_eqb (tri_cmp (apx tl)) (@c_triangles QOps h Sg) it &&
      cs_cmp tl (@c_up_sample QOps h Sg) out && list_eqb (tri_cmp (apx tl)) (@c_triangles QOps h (@c_up_sample QOps h Sg)) ot
  | KCNbr tl h Sg it out ot =>
      list_eqb (tri_cmp (apx tl)) (@c_triangles QOps h Sg) it &&
      cs_cmp tl (@c_neighborhood QOps Sg) out && list_eqb (tri_cmp (apx tl)) (@c_triangles QOps h (@c_neighborhood QOps Sg)) ot
  | KCFor tl h Sg it sel out ot =>
      list_eqb (tri_cmp (apx tl)) (@c_triangles QOps h Sg) it &&
      cs_cmp tl (@c_for_indexes QOps Sg sel) out && list_eqb (tri_cmp (apx tl)) (@c_triangles QOps h (@c_for_indexes QOps Sg sel)) ot
  | KCRepr tl h Sg out =>
      (* np.unique on floats may keep two copies of a corner that differ in the last bit: compare geometrically *)
      list_eqb (tri_cmp (apx tl)) (qtris (@c_repr QOps h Sg)) (qtris out)
  | KCContain tl h Sg it s out =>
      list_eqb (tri_cmp (apx tl)) (@c_triangles QOps h Sg) it && list_eqb Nat.eqb (@c_containing QOps h Sg s) out
  | KCLimits tl h x0 x1 y0 y1 sc out => cs_cmp tl (@c_for_limits_and_scale QOps h x0 x1 y0 y1 sc) out
  end.

(* ---- specification verdict on the implementation's OUTPUT (never calls the routines of the model) ---- *)
Definition qabs_cross (t : qtri) : Q := Qabs (@cross_sum QOps t).
Definition spec_area (ts : list qtri) : Q := fold_right (fun a b => Qred (a + b)) 0 (map (fun t => qabs_cross t / 2) ts).
Definition spec_up (ex : mode) (parents out : list qtri) : bool :=
  Nat.eqb (length out) (4 * length parents)
  && tris_same_set ex out (flat_map (@spec_children QOps) parents)
  && qcmp_sq ex (length parents) (spec_area out) (spec_area parents)
  && lforallb (fun p => lforallb (fun v => lexistsb (fun t =>
        pt_cmp ex v (fst (fst t)) ||| pt_cmp ex v (snd (fst t)) ||| pt_cmp ex v (snd t)) out)
       [fst (fst p); snd (fst p); snd p]) parents.
Definition spec_nbr (ex : mode) (parents out : list qtri) : bool :=
  tris_same_set ex out (flat_map (@spec_neighbours QOps) parents).
Definition spec_select (ex : mode) (parents : list qtri) (sel : list nat) (out : list qtri) : bool :=
  Nat.eqb (length out) (length sel) &&
  forallb (fun so => match nth_error parents (fst so) with
                     | Some t => tri_cmp ex t (snd so) | None => false end) (combine sel out).
Definition shape_is_point (s : qshape) : bool := match s with SPoint _ => true | _ => false end.
(* reported whenever the reference point is inside; for a bare point also only then *)
Definition spec_contain (ts : list qtri) (s : qshape) (out : list nat) : bool :=
  let r := @shape_ref QOps s in
  forallb (fun it => let i := fst it in let t := snd it in
             let ins := @spec_inside QOps r t in
             let rep := existsb (Nat.eqb i) out in
             if shape_is_point s then Bool.eqb ins rep else implb ins rep)
          (combine (seq 0 (length ts)) ts)
  && forallb (fun i => Nat.ltb i (length ts)) out.
(* every triangle is equilateral with the requested side (h*h = 3/4 up to the tolerance) *)
Definition dist2 (p q : qpt) : Q := (fst p - fst q) * (fst p - fst q) + (snd p - snd q) * (snd p - snd q).
Definition equilateral (tl : tols) (side : Q) (t : qtri) : bool :=
  let '(a, b, c) := t in
  qclose (tsq tl) (dist2 a b) (side * side) && qclose (tsq tl) (dist2 b c) (side * side)
  && qclose (tsq tl) (dist2 c a) (side * side).
Definition spec_ctris (tl : tols) (h : Q) (Sg : qcs) (out : list qtri) : bool :=
  Nat.eqb (length out) (length (c_coords Sg))
  && forallb (fun ct => let c := fst ct in let t := snd ct in
       equilateral tl (c_side Sg) t
       (* the three corners lie on the rows bounding lattice row y and around column x *)
       && (let cx := (1#2) * c_side Sg * inject_Z (fst c) + c_xoff Sg in
           let cy := h * c_side Sg * inject_Z (snd c) + c_yoff Sg in
           let '(a, b, d) := t in
           let above := (fun p : qpt => if Qle_bool (snd p) cy then 0%nat else 1%nat) in
           (* one corner above the centre line (pointing up) iff x + y + [flipped] is even *)
           Nat.eqb (above a + above b + above d)
                   (if Z.even (fst c + snd c + (if c_flipped Sg then 1 else 0)) then 1 else 2)
           && qclose (tlen tl) ((fst a + fst b + fst d) / 3) cx
           && qclose (tlen tl) (Qabs (snd a - cy)) ((1#2) * h * c_side Sg)
           && qclose (tlen tl) (Qabs (snd b - cy)) ((1#2) * h * c_side Sg)
           && qclose (tlen tl) (Qabs (snd d - cy)) ((1#2) * h * c_side Sg)))
     (combine (c_coords Sg) out).
(* the contents of vertex slot i after the edits: the last value written to it, else the original row *)
Definition spec_slot (vs : list qpt) (es : list (nat * qpt)) (i : nat) : qpt :=
  match find (fun e : nat * qpt => Nat.eqb (fst e) i) (rev es) with
  | Some e => snd e
  | None => nth i vs (0, 0)
  end.

(* the row position i holds after the writes: the last row written to it, else the original row *)
Definition spec_row (rows : list idx3) (es : list (nat * idx3)) (i : nat) : idx3 :=
  match find (fun e : nat * idx3 => Nat.eqb (fst e) i) (rev es) with
  | Some e => snd e
  | None => nth i rows (0, 0, 0)%nat
  end.

Definition spec_ok (k : case) : bool :=
  match k with
  | KATris A out => negb (idx_ok A) ||
      list_eqb (tri_cmp exact)
        (map (fun r => (nth (i0 r) (snd A) (0, 0), nth (i1 r) (snd A) (0, 0), nth (i2 r) (snd A) (0, 0))) (fst A)) out
  | KATrisRes A out =>
      match out with
      | Ok ts => idx_ok A &&& list_eqb (tri_cmp exact)
                   (map (fun r => (nth (i0 r) (snd A) (0, 0), nth (i1 r) (snd A) (0, 0), nth (i2 r) (snd A) (0, 0))) (fst A)) ts
      | Raise _ => negb (idx_ok A)
      end
  | KAArea tl ex A out => negb (idx_ok A) || qcmp_sq (ex, tl) (length (fst A)) (spec_area (qtris A)) out
  | KAEdits A es out => negb (idx_ok A && forallb (fun e : nat * qpt => Nat.ltb (fst e) (length (snd A))) es) ||
      list_eqb (tri_cmp exact)
        (map (fun r => (spec_slot (snd A) es (i0 r), spec_slot (snd A) es (i1 r), spec_slot (snd A) es (i2 r))) (fst A)) out
  | KARewires A es out =>
      let n := length (snd A) in
      let okrow := fun r : idx3 => Nat.ltb (i0 r) n && Nat.ltb (i1 r) n && Nat.ltb (i2 r) n in
      negb (idx_ok A && forallb (fun e : nat * idx3 => Nat.ltb (fst e) (length (fst A)) && okrow (snd e)) es) ||
      list_eqb (tri_cmp exact)
        (map (fun i => let r := spec_row (fst A) es i in
                       (nth (i0 r) (snd A) (0, 0), nth (i1 r) (snd A) (0, 0), nth (i2 r) (snd A) (0, 0)))
             (seq 0 (length (fst A)))) out
  | KAUp tl ex A out => negb (idx_ok A) || (idx_ok out && spec_up (ex, tl) (qtris A) (qtris out))
  | KANbr tl ex A out => negb (idx_ok A) || (idx_ok out && spec_nbr (ex, tl) (qtris A) (qtris out))
  | KAFor tl ex A sel out => negb (idx_ok A) || (idx_ok out && spec_select (ex, tl) (qtris A) sel (qtris out))
  | KAWith A vs out => list_eqb (tri_cmp exact) (qtris (fst A, vs)) out
  | KAContain A s out => spec_contain (qtris A) s out
  | KShapeInit tl s out =>
      match s, out with
      | SPolygon vs, Raise _ => Nat.ltb (length vs) 3
      | SPolygon vs, Ok _ => negb (Nat.ltb (length vs) 3)
      | _, Ok _ => true
      | _, Raise _ => false
      end
  | KALimits tl h y0 y1 x0 x1 sc out =>
      idx_ok out && forallb (equilateral tl sc) (qtris out)
  | KCTris tl h Sg out => spec_ctris tl h Sg out
  | KCArea tl h Sg out =>
      qcmp_sq (apx tl) (length (c_coords Sg)) out (h / 2 * (c_side Sg * c_side Sg) * inject_Z (Z.of_nat (length (c_coords Sg))))
  | KCUp tl h Sg it out ot =>
      spec_ctris tl h Sg it && spec_ctris tl h out ot && spec_up (apx tl) it ot
  | KCNbr tl h Sg it out ot =>
      spec_ctris tl h Sg it && spec_ctris tl h out ot && spec_nbr (apx tl) it ot
  | KCFor tl h Sg it sel out ot =>
      spec_ctris tl h Sg it && spec_ctris tl h out ot && spec_select (apx tl) it sel ot
  | KCRepr tl h Sg out => idx_ok out && spec_ctris tl h Sg (qtris out)
  | KCContain tl h Sg it s out => spec_ctris tl h Sg it && spec_contain it s out
  | KCLimits tl h x0 x1 y0 y1 sc out =>
      qclose (tlen tl) (c_side out) sc && negb (c_flipped out)
  end.

Definition check (k : case) : nat := verdict (agree k) (spec_ok k).
