(* C11s -- lemmas of PART E: shared argument records.  The machine that builds a NEW record in apply_over_sampling (the code)
   refines the value semantics on every history and never changes a record that exists; the machine that fills the record it
   received does not. *)
From Coq Require Import ZArith List Bool Lia.
From PAV Require Import Base.Res Base.Check Model.C11 Model.C11s Proofs.C11.
Import ListNotations.

Definition ds_ok (h : heap) (kc : nat * cell) (v : arr) : Prop := (fst kc < 2)%nat /\ cell_ok h (snd kc) v.
Definition RS (st : hstate) (sp : vstate) : Prop :=
  (forall w, (w < ndefaults)%nat -> cell_ok (h_heap st) w empty_rec)
  /\ Forall2 (cell_ok (h_heap st)) (h_args st) (v_args sp)
  /\ Forall2 (ds_ok (h_heap st)) (h_dss st) (v_dss sp).

Lemma RS0 : RS hst0 vst0.
Proof.
  split; [|split; cbn; constructor].
  intros w Hw. unfold ndefaults in Hw. split; cbn; [lia|].
  destruct w as [|[|[|[|w']]]]; cbn; try reflexivity; lia.
Qed.

Lemma args_ext h l a v : Forall2 (cell_ok h) a v -> Forall2 (cell_ok (h ++ l)) a v.
Proof. apply F2_impl. intros; now apply cell_ok_ext. Qed.
Lemma dss_ext h l a v : Forall2 (ds_ok h) a v -> Forall2 (ds_ok (h ++ l)) a v.
Proof. apply F2_impl. intros ? ? [? ?]; split; auto; now apply cell_ok_ext. Qed.

(* one step of the machine that builds a new record simulates one step of the value semantics *)
Ltac proj := cbn [fst snd h_heap h_args h_dss v_args v_dss].
Tactic Notation "proj" "in" ident(H1) "," ident(H2) "," ident(H3) := cbn [fst snd] in H1, H2, H3.
Tactic Notation "proj" "in" ident(H1) := cbn [fst snd] in H1.
Lemma hstep_sim st sp o : RS st sp ->
  RS (fst (hstep false st o)) (fst (vstep sp o)) /\ snd (hstep false st o) = snd (vstep sp o).
Proof.
  intros (Hd & Ha & Hs).
  assert (Hsame : RS st sp) by (split; [|split]; auto).
  destruct o as [r|cls a|d a|d|i|d|w]; cbn [hstep vstep halloc h_heap h_args h_dss v_args v_dss].
  - (* HArg *)
    proj.
    split; [|reflexivity]. split; [|split]; proj.
    + intros w Hw. apply cell_ok_ext. auto.
    + apply F2_snoc; [now apply args_ext | apply cell_ok_new].
    + now apply dss_ext.
  - (* HDs *)
    destruct (Nat.ltb cls 2) eqn:E; [|proj; split; [exact Hsame | reflexivity]]. apply Nat.ltb_lt in E.
    destruct a as [i|].
    + pose proof (F2_nth _ _ _ i Ha) as Hn.
      destruct (nth_error (h_args st) i) as [c|], (nth_error (v_args sp) i) as [v|]; try contradiction; proj; [|proj; split; [exact Hsame | reflexivity]].
      destruct Hn as [Hl Hv]. split; [|now rewrite Hv].
      split; [|split]; proj; auto. apply F2_snoc; auto. split; proj; [auto | split; auto].
    + assert (Hw : (2 * cls < ndefaults)%nat) by (unfold ndefaults; lia).
      destruct (Hd _ Hw) as [Hl Hv]. proj. split; [|now rewrite Hv].
      split; [|split]; proj; auto. apply F2_snoc; auto. split; proj; [auto | split; auto].
  - (* HApply *)
    pose proof (F2_nth _ _ _ d Hs) as Hn.
    destruct (nth_error (h_dss st) d) as [[cls dc]|], (nth_error (v_dss sp) d) as [dr|]; try contradiction; proj; [|proj; split; [exact Hsame | reflexivity]].
    destruct Hn as [Hcls [Hdl Hdv]]; proj in Hcls, Hdl, Hdv.
    assert (Hnew : forall ac ar, cell_ok (h_heap st) ac ar ->
              RS (mkH (h_heap st ++ [merge (hget (h_heap st) ac) (hget (h_heap st) dc)]) (h_args st)
                      (h_dss st ++ [(cls, length (h_heap st))]))
                 (mkV (v_args sp) (v_dss sp ++ [merge ar dr]))
              /\ Ok (merge (hget (h_heap st) ac) (hget (h_heap st) dc)) = Ok (merge ar dr) :> obs).
    { intros ac ar [Hal Hav]. rewrite Hav, Hdv. split; [|reflexivity].
      split; [|split]; proj.
      - intros w Hw. apply cell_ok_ext; auto.
      - now apply args_ext.
      - apply F2_snoc; [now apply dss_ext | split; proj; [auto | apply cell_ok_new]]. }
    destruct a as [i|].
    + pose proof (F2_nth _ _ _ i Ha) as Hn.
      destruct (nth_error (h_args st) i) as [ac|], (nth_error (v_args sp) i) as [ar|]; try contradiction; proj; [|proj; split; [exact Hsame | reflexivity]].
      now apply Hnew.
    + proj. apply Hnew. apply Hd. unfold ndefaults. lia.
  - (* HKeep *)
    pose proof (F2_nth _ _ _ d Hs) as Hn.
    destruct (nth_error (h_dss st) d) as [[cls dc]|], (nth_error (v_dss sp) d) as [dr|]; try contradiction; proj; [|proj; split; [exact Hsame | reflexivity]].
    destruct Hn as [Hcls [Hdl Hdv]]; proj in Hcls, Hdl, Hdv. split; [|now rewrite Hdv].
    split; [|split]; proj; auto. apply F2_snoc; auto. split; proj; [auto | split; auto].
  - (* HPeekArg *)
    pose proof (F2_nth _ _ _ i Ha) as Hn.
    destruct (nth_error (h_args st) i) as [c|], (nth_error (v_args sp) i) as [v|]; try contradiction; proj; [|proj; split; [exact Hsame | reflexivity]].
    destruct Hn as [_ Hv]. now rewrite Hv.
  - (* HPeekDs *)
    pose proof (F2_nth _ _ _ d Hs) as Hn.
    destruct (nth_error (h_dss st) d) as [[cls dc]|], (nth_error (v_dss sp) d) as [dr|]; try contradiction; proj; [|proj; split; [exact Hsame | reflexivity]].
    destruct Hn as [_ [_ Hv]]; proj in Hv. now rewrite Hv.
  - (* HPeekDefault *)
    destruct (Nat.ltb w ndefaults) eqn:E; proj; [|proj; split; [exact Hsame | reflexivity]].
    apply Nat.ltb_lt in E. destruct (Hd _ E) as [_ Hv]. now rewrite Hv.
Qed.

(* ... and changes no record that exists: the heap only grows, every name refers to a cell below its length *)
Lemma hstep_heap st o : exists l, h_heap (fst (hstep false st o)) = h_heap st ++ l.
Proof.
  assert (Hnil : exists l, h_heap st = h_heap st ++ l) by (exists []; now rewrite app_nil_r).
  destruct o as [r|cls a|d a|d|i|d|w]; cbn [hstep halloc].
  - exists [r]; reflexivity.
  - destruct (Nat.ltb cls 2); [|exact Hnil].
    destruct (match a with Some i => nth_error (h_args st) i | None => Some (2 * cls)%nat end); exact Hnil.
  - destruct (nth_error (h_dss st) d) as [[cls dc]|]; [|exact Hnil].
    destruct (match a with Some i => nth_error (h_args st) i | None => Some (2 * cls + 1)%nat end) as [ac|]; [|exact Hnil].
    cbn [fst h_heap]. eexists; reflexivity.
  - destruct (nth_error (h_dss st) d) as [[cls dc]|]; exact Hnil.
  - destruct (nth_error (h_args st) i); exact Hnil.
  - destruct (nth_error (h_dss st) d) as [[? ?]|]; exact Hnil.
  - destruct (Nat.ltb w ndefaults); exact Hnil.
Qed.

Lemma arr_eqb_refl (a : arr) : arr_eqb a a = true.
Proof. induction a as [|x a IH]; cbn; auto. now rewrite Z.eqb_refl, IH. Qed.

Lemma indexed_In {A} (l : list A) : forall i k x, In (k, x) (indexed i l) -> In x l.
Proof. induction l as [|y l IH]; cbn; intros i k x H; [contradiction|]. destruct H as [H|H]; [inversion H; auto | right; eauto]. Qed.

Lemma F2_in_l {A B} (P : A -> B -> Prop) l1 l2 x : Forall2 P l1 l2 -> In x l1 -> exists y, In y l2 /\ P x y.
Proof.
  intros H; induction H as [|a b l1 l2 Hab H IH]; cbn; intros Hin; [contradiction|].
  destruct Hin as [<-|Hin]; [exists b; auto|]. destruct (IH Hin) as (y & Hy & Hp). exists y; auto.
Qed.

Lemma hnames_bound st sp : RS st sp -> forall nc, In nc (hnames st) -> (snd nc < length (h_heap st))%nat.
Proof.
  intros (Hd & Ha & Hs) nc Hin. unfold hnames in Hin.
  apply in_app_or in Hin. destruct Hin as [Hin|Hin].
  - apply in_map_iff in Hin. destruct Hin as (w & <- & Hw). apply in_seq in Hw. cbn. apply (Hd w). lia.
  - apply in_app_or in Hin. destruct Hin as [Hin|Hin]; apply in_map_iff in Hin; destruct Hin as ([k x] & <- & Hx); cbn;
      apply indexed_In in Hx.
    + destruct (F2_in_l _ _ _ x Ha Hx) as (v & _ & [Hl _]); auto.
    + destruct x as [cls c]. destruct (F2_in_l _ _ _ (cls, c) Hs Hx) as (v & _ & [_ [Hl _]]); auto.
Qed.

Lemma flat_map_nil {A B} (f : A -> list B) l : (forall x, In x l -> f x = []) -> flat_map f l = [].
Proof. induction l as [|x l IH]; cbn; intros H; auto. rewrite (H x) by auto. apply IH; auto. Qed.

Lemma hstep_no_change st sp o : RS st sp -> hchanges st (fst (hstep false st o)) = [].
Proof.
  intros HR. unfold hchanges. apply flat_map_nil. intros nc Hin.
  destruct (hstep_heap st o) as [l ->]. rewrite hget_app_old by (eapply hnames_bound; eauto).
  now rewrite arr_eqb_refl.
Qed.

(* MAIN: on every history the machine of the code returns the observations of the value semantics and changes no record *)
Lemma htrace_pure ops : forall st sp, RS st sp -> htrace false st ops = map (fun ob => (ob, [])) (vrun sp ops).
Proof.
  induction ops as [|o ops IH]; intros st sp HR; cbn [htrace vrun map]; [reflexivity|].
  pose proof (hstep_sim st sp o HR) as [HR1 Hob].
  pose proof (hstep_no_change st sp o HR) as Hch.
  destruct (hstep false st o) as [st1 ob]; destruct (vstep sp o) as [sp1 ob']; cbn [fst snd] in *.
  subst ob'. rewrite Hch. cbn [map]. f_equal. now apply IH.
Qed.

Lemma share_pure ops : hobservations false ops = vobservations ops.
Proof.
  unfold hobservations, vobservations. rewrite (htrace_pure ops hst0 vst0 RS0). rewrite map_map. cbn [fst]. apply map_id.
Qed.
Lemma share_nothing_changes ops : Forall (fun x => snd x = []) (htrace false hst0 ops).
Proof. rewrite (htrace_pure ops hst0 vst0 RS0). apply Forall_forall. intros x Hx. apply in_map_iff in Hx. destruct Hx as (? & <- & _); reflexivity. Qed.

(* the correspondence check accepts exactly what the specification accepts: model = spec as boolean functions of the run *)
Lemma all2_map_l {A B C} (f : A -> B -> bool) (g : C -> A) l1 l2 : all2 f (map g l1) l2 = all2 (fun c b => f (g c) b) l1 l2.
Proof. revert l2; induction l1 as [|x l1 IH]; intros [|y l2]; cbn; auto. now rewrite IH. Qed.
Lemma list_eqb_nil_l {A} (e : A -> A -> bool) l : list_eqb e [] l = is_nil l.
Proof. destruct l; reflexivity. Qed.
Lemma share_agree_is_spec ops out : share_agree ops out = share_spec_ok ops out.
Proof.
  unfold share_agree, share_spec_ok. rewrite (htrace_pure ops hst0 vst0 RS0), all2_map_l. unfold vobservations.
  generalize (vrun vst0 ops). intros l. revert out; induction l as [|x l IH]; intros [|y out]; reflexivity.
Qed.

(* ---- what the value semantics says: the result of apply_over_sampling is the merge of the records the argument and the dataset
   were CREATED with, whatever happened in between *)
Fixpoint vfin (sp : vstate) (ops : list sop) : vstate :=
  match ops with [] => sp | o :: t => vfin (fst (vstep sp o)) t end.
Lemma vrun_app a : forall sp b, vrun sp (a ++ b) = vrun sp a ++ vrun (vfin sp a) b.
Proof.
  induction a as [|o a IH]; intros sp b; cbn [app vrun vfin]; [reflexivity|].
  destruct (vstep sp o) as [sp1 ob]; cbn [fst]. now rewrite IH.
Qed.
Fixpoint sargs (ops : list sop) : list arr :=
  match ops with [] => [] | HArg r :: t => r :: sargs t | _ :: t => sargs t end.
Lemma vstep_args sp o : v_args (fst (vstep sp o)) = v_args sp ++ sargs [o].
Proof.
  destruct o as [r|cls a|d a|d|i|d|w]; cbn [vstep sargs]; try (cbn; now rewrite ?app_nil_r).
  - destruct (Nat.ltb cls 2); [|cbn; now rewrite app_nil_r].
    destruct (match a with Some i => nth_error (v_args sp) i | None => Some empty_rec end); cbn; now rewrite app_nil_r.
  - destruct (nth_error (v_dss sp) d); [|cbn; now rewrite app_nil_r].
    destruct (match a with Some i => nth_error (v_args sp) i | None => Some empty_rec end); cbn; now rewrite app_nil_r.
  - destruct (nth_error (v_dss sp) d); cbn; now rewrite app_nil_r.
  - destruct (nth_error (v_args sp) i); cbn; now rewrite app_nil_r.
  - destruct (nth_error (v_dss sp) d); cbn; now rewrite app_nil_r.
  - destruct (Nat.ltb w ndefaults); cbn; now rewrite app_nil_r.
Qed.
Lemma sargs_cons o t : sargs (o :: t) = sargs [o] ++ sargs t.
Proof. destruct o; reflexivity. Qed.
Lemma vfin_args ops : forall sp, v_args (vfin sp ops) = v_args sp ++ sargs ops.
Proof.
  induction ops as [|o ops IH]; intros sp; cbn [vfin]; [cbn; now rewrite app_nil_r|].
  rewrite IH, vstep_args, (sargs_cons o ops). now rewrite app_assoc.
Qed.

(* the caller's argument objects hold, after every history, the record they were created with *)
Lemma share_args_never_modified ops i :
  last (hobservations false (ops ++ [HPeekArg i])) bad
  = match nth_error (sargs ops) i with Some r => Ok r | None => bad end.
Proof.
  rewrite share_pure. unfold vobservations. rewrite vrun_app. cbn [vrun vstep].
  rewrite vfin_args. cbn [v_args vst0 app].
  destruct (nth_error (sargs ops) i); now rewrite last_last.
Qed.
(* ... and the default instances stay empty *)
Lemma share_defaults_never_filled ops w : (w < ndefaults)%nat ->
  last (hobservations false (ops ++ [HPeekDefault w])) bad = Ok empty_rec.
Proof.
  intros Hw. rewrite share_pure. unfold vobservations. rewrite vrun_app. cbn [vrun vstep].
  apply Nat.ltb_lt in Hw. rewrite Hw. now rewrite last_last.
Qed.

Local Open Scope Z_scope.
(* ---- the in-place variant (fills the missing fields of the record it received) is refuted: two datasets with their own
   over-sampling, apply_over_sampling() with the argument omitted on both: the second reports the over-sampling of the first *)
Definition hist_share : list sop :=
  [HArg [1; 0; 2]; HArg [4; 0; 1]; HDs 0 (Some 0%nat); HDs 0 (Some 1%nat); HApply 0 None; HApply 1 None; HPeekDefault 1].
Lemma share_inplace_refuted : hobservations true hist_share <> vobservations hist_share
  /\ nth 5 (hobservations true hist_share) bad = Ok [1; 0; 2] /\ nth 5 (vobservations hist_share) bad = Ok [4; 0; 1]
  /\ nth 6 (hobservations true hist_share) bad = Ok [1; 0; 2].
Proof. split; [vm_compute; intros H; discriminate | vm_compute; auto]. Qed.
(* ... also with ONE partially specified argument object handed to both calls *)
Definition hist_share_arg : list sop :=
  [HArg [1; 0; 2]; HArg [4; 0; 1]; HArg [0; 0; 8]; HDs 0 (Some 0%nat); HDs 1 (Some 1%nat); HApply 0 (Some 2%nat); HApply 1 (Some 2%nat);
   HPeekArg 2].
Lemma share_inplace_arg_refuted : hobservations true hist_share_arg <> vobservations hist_share_arg
  /\ nth 6 (hobservations true hist_share_arg) bad = Ok [1; 0; 8] /\ nth 6 (vobservations hist_share_arg) bad = Ok [4; 0; 8]
  /\ nth 7 (hobservations true hist_share_arg) bad = Ok [1; 0; 8] /\ nth 7 (vobservations hist_share_arg) bad = Ok [0; 0; 8].
Proof. split; [vm_compute; intros H; discriminate | vm_compute; auto 6]. Qed.
