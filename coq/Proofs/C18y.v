(* C18 -- uniform sub-size: the bounding-box centre of the unmasked sub-pixel centres is the bounding-box centre
   of the unmasked pixels (hence of the unmasked region, a union of unit squares about the pixel centres). *)
From Coq Require Import ZArith QArith Reals Lra Lia List Bool Arith Psatz.
From PAV Require Import Base.NumOps Base.Res Base.Check Base.Sum Model.C18 Proofs.C18 Proofs.C18idx Proofs.C18x.
Import ListNotations.
Local Open Scope R_scope.

(* closed form of the centre of sub-pixel (a, b) of pixel (y, x) for sub-size s, array shape (H, W) *)
Definition ycoord (H y s a : nat) : R := (INR H - 1) / 2 - INR y + 1 / 2 - (2 * INR a + 1) / (2 * INR s).
Definition xcoord (W x s b : nat) : R := INR x - (INR W - 1) / 2 - 1 / 2 + (2 * INR b + 1) / (2 * INR s).
Definition omax (s : nat) : R := 1 / 2 - 1 / (2 * INR s).

Lemma ycoord_one H y : ycoord H y 1 0 = (INR H - 1) / 2 - INR y.
Proof. unfold ycoord. cbn [INR]. field. Qed.
Lemma xcoord_one W x : xcoord W x 1 0 = INR x - (INR W - 1) / 2.
Proof. unfold xcoord. cbn [INR]. field. Qed.

Lemma off_bounds s a : (a < s)%nat ->
  - omax s <= 1 / 2 - (2 * INR a + 1) / (2 * INR s) <= omax s.
Proof.
  intros Ha. unfold omax.
  assert (Hs : 0 < INR s) by (apply lt_0_INR; lia).
  assert (H0 : 0 <= INR a) by apply pos_INR.
  assert (H1 : INR a + 1 <= INR s) by (rewrite <- S_INR; apply le_INR; lia).
  set (t := / (2 * INR s)).
  assert (Ht : 0 < t) by (apply Rinv_0_lt_compat; lra).
  assert (Hts : t * (2 * INR s) = 1) by (unfold t; field; lra).
  unfold Rdiv. fold t. split; nra.
Qed.
Lemma ycoord_bounds H y s a : (a < s)%nat ->
  ycoord H y 1 0 - omax s <= ycoord H y s a <= ycoord H y 1 0 + omax s.
Proof. intros Ha. rewrite ycoord_one. unfold ycoord. pose proof (off_bounds s a Ha). lra. Qed.
Lemma xcoord_bounds W x s b : (b < s)%nat ->
  xcoord W x 1 0 - omax s <= xcoord W x s b <= xcoord W x 1 0 + omax s.
Proof.
  intros Hb. rewrite xcoord_one. unfold xcoord. pose proof (off_bounds s b Hb).
  replace (INR x - (INR W - 1) / 2 - 1 / 2 + (2 * INR b + 1) / (2 * INR s))
    with (INR x - (INR W - 1) / 2 - (1 / 2 - (2 * INR b + 1) / (2 * INR s))) by lra. lra.
Qed.
Lemma ycoord_top H y s : (1 <= s)%nat -> ycoord H y s 0 = ycoord H y 1 0 + omax s.
Proof. intros Hs. rewrite ycoord_one. unfold ycoord, omax. cbn [INR]. assert (INR s <> 0) by (apply not_0_INR; lia). field. assumption. Qed.
Lemma ycoord_bottom H y s : (1 <= s)%nat -> ycoord H y s (s - 1) = ycoord H y 1 0 - omax s.
Proof.
  intros Hs. rewrite ycoord_one. unfold ycoord, omax. rewrite minus_INR by lia. cbn [INR].
  assert (INR s <> 0) by (apply not_0_INR; lia). field. assumption.
Qed.
Lemma xcoord_left W x s : (1 <= s)%nat -> xcoord W x s 0 = xcoord W x 1 0 - omax s.
Proof. intros Hs. rewrite xcoord_one. unfold xcoord, omax. cbn [INR]. assert (INR s <> 0) by (apply not_0_INR; lia). field. assumption. Qed.
Lemma xcoord_right W x s : (1 <= s)%nat -> xcoord W x s (s - 1) = xcoord W x 1 0 + omax s.
Proof.
  intros Hs. rewrite xcoord_one. unfold xcoord, omax. rewrite minus_INR by lia. cbn [INR].
  assert (INR s <> 0) by (apply not_0_INR; lia). field. assumption.
Qed.

(* membership in the sub-pixels of one pixel, and in the pixel-unit sub-grid *)
Ltac spp_alg Hs :=
  unfold ycoord, xcoord, central_scaled_coordinate_2d_from, ofNat, two;
  cbn [add sub mul div opp ofZ ROps fst snd];
  rewrite !minus_IZR, <- !INR_IZR_INZ;
  change (@one ROps) with 1; change (@zero ROps) with 0;
  f_equal; field; exact Hs.

Lemma in_spp H W (yx : nat * nat) s (p : R * R) : (1 <= s)%nat ->
  (In p (@sub_pixel_points ROps (1, 1) (@central_scaled_coordinate_2d_from ROps H W (1, 1) (0, 0)) yx s) <->
   exists a b, (a < s)%nat /\ (b < s)%nat /\ p = (ycoord H (fst yx) s a, xcoord W (snd yx) s b)).
Proof.
  intros Hs1. assert (Hs : INR s <> 0) by (apply not_0_INR; lia).
  unfold sub_pixel_points. cbv zeta. rewrite in_flat_map. split.
  - intros (a & Ha & Hin). apply in_map_iff in Hin. destruct Hin as (b & Hb & Hbin).
    apply in_seq in Ha, Hbin. exists a, b. split; [lia|]. split; [lia|]. rewrite <- Hb. spp_alg Hs.
  - intros (a & b & Ha & Hb & ->). exists a. split; [apply in_seq; lia|]. apply in_map_iff. exists b.
    split; [|apply in_seq; lia]. spp_alg Hs.
Qed.

Lemma in_unit_grid m ss (p : R * R) :
  (forall i, (i < total_pixels_2d_from m)%nat -> (1 <= sz ss i)%nat) ->
  (In p (@unit_grid ROps m ss) <->
   exists i a b, (i < total_pixels_2d_from m)%nat /\ (a < sz ss i)%nat /\ (b < sz ss i)%nat /\
     p = (ycoord (nrows m) (fst (nth i (native_index_for_slim_index_2d_from m) (0, 0)%nat)) (sz ss i) a,
          xcoord (ncols m) (snd (nth i (native_index_for_slim_index_2d_from m) (0, 0)%nat)) (sz ss i) b)).
Proof.
  intros Hsz. rewrite unit_grid_unfold, in_flat_map. split.
  - intros ([i yx] & Hc & Hin).
    destruct (in_combine_seq _ (0, 0)%nat _ _ _ Hc) as (_ & Hi & Hn). rewrite Nat.sub_0_r in Hi, Hn.
    cbn [fst snd] in Hin. apply in_spp in Hin; [|apply Hsz; exact Hi].
    destruct Hin as (a & b & Ha & Hb & ->). exists i, a, b. rewrite Hn. auto.
  - intros (i & a & b & Hi & Ha & Hb & ->).
    exists (i, nth i (native_index_for_slim_index_2d_from m) (0, 0)%nat). split.
    + apply (in_combine_seq_inv _ (0, 0)%nat 0 i). exact Hi.
    + cbn [fst snd]. apply in_spp; [apply Hsz; exact Hi|]. exists a, b. auto.
Qed.

(* ================================================================= uniform sub-size *)
Definition uniform (m : mask) (s : nat) : list nat := repeat s (total_pixels_2d_from m).
Lemma sz_uniform m s i : (i < total_pixels_2d_from m)%nat -> sz (uniform m s) i = s.
Proof.
  unfold sz, uniform. generalize (total_pixels_2d_from m). intros n. revert i.
  induction n as [|n IH]; intros [|i] Hi; cbn; try lia; auto. apply IH. lia.
Qed.
Lemma is_max_unique l a b : is_max l a -> is_max l b -> a = b.
Proof. intros [Ha1 Ha2] [Hb1 Hb2]. specialize (Ha2 b Hb1). specialize (Hb2 a Ha1). lra. Qed.
Lemma is_min_unique l a b : is_min l a -> is_min l b -> a = b.
Proof. intros [Ha1 Ha2] [Hb1 Hb2]. specialize (Ha2 b Hb1). specialize (Hb2 a Ha1). lra. Qed.

Section Uniform.
  Variable m : mask.
  Variable s : nat.
  Hypothesis s_pos : (1 <= s)%nat.
  Let n := total_pixels_2d_from m.
  Let py (i : nat) : nat := fst (nth i (native_index_for_slim_index_2d_from m) (0, 0)%nat).
  Let px (i : nat) : nat := snd (nth i (native_index_for_slim_index_2d_from m) (0, 0)%nat).
  Let gs := @unit_grid ROps m (uniform m s).
  Let g1 := @unit_grid ROps m (uniform m 1).

  Lemma uniform_sz_ok t : (1 <= t)%nat -> forall i, (i < total_pixels_2d_from m)%nat -> (1 <= sz (uniform m t) i)%nat.
  Proof. intros Ht i Hi. rewrite sz_uniform by exact Hi. exact Ht. Qed.

  Lemma in_uniform t (p : R * R) : (1 <= t)%nat ->
    (In p (@unit_grid ROps m (uniform m t)) <->
     exists i a b, (i < n)%nat /\ (a < t)%nat /\ (b < t)%nat /\
                   p = (ycoord (nrows m) (py i) t a, xcoord (ncols m) (px i) t b)).
  Proof.
    intros Ht. rewrite (in_unit_grid m (uniform m t) p (uniform_sz_ok t Ht)). split.
    - intros (i & a & b & Hi & Ha & Hb & ->). rewrite sz_uniform in * by exact Hi. exists i, a, b. auto.
    - intros (i & a & b & Hi & Ha & Hb & ->). exists i, a, b. rewrite sz_uniform by exact Hi. auto.
  Qed.
  Lemma fst_in t v : (1 <= t)%nat ->
    (In v (map fst (@unit_grid ROps m (uniform m t))) <->
     exists i a, (i < n)%nat /\ (a < t)%nat /\ v = ycoord (nrows m) (py i) t a).
  Proof.
    intros Ht. rewrite in_map_iff. split.
    - intros (p & <- & Hp). apply (in_uniform t p Ht) in Hp. destruct Hp as (i & a & b & Hi & Ha & Hb & ->).
      exists i, a. auto.
    - intros (i & a & Hi & Ha & ->). exists (ycoord (nrows m) (py i) t a, xcoord (ncols m) (px i) t 0).
      split; [reflexivity|]. apply (in_uniform t _ Ht). exists i, a, 0%nat. repeat split; auto; lia.
  Qed.
  Lemma snd_in t v : (1 <= t)%nat ->
    (In v (map snd (@unit_grid ROps m (uniform m t))) <->
     exists i b, (i < n)%nat /\ (b < t)%nat /\ v = xcoord (ncols m) (px i) t b).
  Proof.
    intros Ht. rewrite in_map_iff. split.
    - intros (p & <- & Hp). apply (in_uniform t p Ht) in Hp. destruct Hp as (i & a & b & Hi & Ha & Hb & ->).
      exists i, b. auto.
    - intros (i & b & Hi & Hb & ->). exists (ycoord (nrows m) (py i) t 0, xcoord (ncols m) (px i) t b).
      split; [reflexivity|]. apply (in_uniform t _ Ht). exists i, 0%nat, b. repeat split; auto; lia.
  Qed.

  Lemma uniform_max_y Ms M1 : is_max (map fst gs) Ms -> is_max (map fst g1) M1 -> Ms = M1 + omax s.
  Proof.
    intros [Hs1 Hs2] [H11 H12]. apply Rle_antisym.
    - apply (fst_in s Ms s_pos) in Hs1. destruct Hs1 as (i & a & Hi & Ha & ->).
      pose proof (ycoord_bounds (nrows m) (py i) s a Ha) as Hb.
      assert (ycoord (nrows m) (py i) 1 0 <= M1); [|lra].
      apply H12. apply (fst_in 1 _ (le_n 1)). exists i, 0%nat. repeat split; auto.
    - apply (fst_in 1 M1 (le_n 1)) in H11. destruct H11 as (i & a & Hi & Ha & ->).
      assert (a = 0)%nat by lia. subst a. rewrite <- (ycoord_top _ _ s s_pos).
      apply Hs2. apply (fst_in s _ s_pos). exists i, 0%nat. repeat split; auto.
  Qed.
  Lemma uniform_min_y ms m1 : is_min (map fst gs) ms -> is_min (map fst g1) m1 -> ms = m1 - omax s.
  Proof.
    intros [Hs1 Hs2] [H11 H12]. apply Rle_antisym.
    - apply (fst_in 1 m1 (le_n 1)) in H11. destruct H11 as (i & a & Hi & Ha & ->).
      assert (a = 0)%nat by lia. subst a. rewrite <- (ycoord_bottom _ _ s s_pos).
      apply Hs2. apply (fst_in s _ s_pos). exists i, (s - 1)%nat. repeat split; auto. lia.
    - apply (fst_in s ms s_pos) in Hs1. destruct Hs1 as (i & a & Hi & Ha & ->).
      pose proof (ycoord_bounds (nrows m) (py i) s a Ha) as Hb.
      assert (m1 <= ycoord (nrows m) (py i) 1 0); [|lra].
      apply H12. apply (fst_in 1 _ (le_n 1)). exists i, 0%nat. repeat split; auto.
  Qed.
  Lemma uniform_max_x Ms M1 : is_max (map snd gs) Ms -> is_max (map snd g1) M1 -> Ms = M1 + omax s.
  Proof.
    intros [Hs1 Hs2] [H11 H12]. apply Rle_antisym.
    - apply (snd_in s Ms s_pos) in Hs1. destruct Hs1 as (i & b & Hi & Hb & ->).
      pose proof (xcoord_bounds (ncols m) (px i) s b Hb) as Hbd.
      assert (xcoord (ncols m) (px i) 1 0 <= M1); [|lra].
      apply H12. apply (snd_in 1 _ (le_n 1)). exists i, 0%nat. repeat split; auto.
    - apply (snd_in 1 M1 (le_n 1)) in H11. destruct H11 as (i & b & Hi & Hb & ->).
      assert (b = 0)%nat by lia. subst b. rewrite <- (xcoord_right _ _ s s_pos).
      apply Hs2. apply (snd_in s _ s_pos). exists i, (s - 1)%nat. repeat split; auto. lia.
  Qed.
  Lemma uniform_min_x ms m1 : is_min (map snd gs) ms -> is_min (map snd g1) m1 -> ms = m1 - omax s.
  Proof.
    intros [Hs1 Hs2] [H11 H12]. apply Rle_antisym.
    - apply (snd_in 1 m1 (le_n 1)) in H11. destruct H11 as (i & b & Hi & Hb & ->).
      assert (b = 0)%nat by lia. subst b. rewrite <- (xcoord_left _ _ s s_pos).
      apply Hs2. apply (snd_in s _ s_pos). exists i, 0%nat. repeat split; auto.
    - apply (snd_in s ms s_pos) in Hs1. destruct Hs1 as (i & b & Hi & Hb & ->).
      pose proof (xcoord_bounds (ncols m) (px i) s b Hb) as Hbd.
      assert (m1 <= xcoord (ncols m) (px i) 1 0); [|lra].
      apply H12. apply (snd_in 1 _ (le_n 1)). exists i, 0%nat. repeat split; auto.
  Qed.

  (* same bounding-box centre for sub-size s and for the bare pixel centres *)
  Theorem uniform_centre cc cc1 : bbox_centre_of gs cc -> bbox_centre_of g1 cc1 -> cc = cc1.
  Proof.
    intros (ya & yi & xa & xi & H1 & H2 & H3 & H4 & ->) (ya' & yi' & xa' & xi' & H1' & H2' & H3' & H4' & ->).
    rewrite (uniform_max_y _ _ H1 H1'), (uniform_min_y _ _ H2 H2'), (uniform_max_x _ _ H3 H3'), (uniform_min_x _ _ H4 H4').
    f_equal; lra.
  Qed.
End Uniform.

Lemma shape_ok_uniform m s : shape_ok m (uniform m s) = true -> (1 <= s)%nat /\ shape_ok m (uniform m 1) = true.
Proof.
  intros H. destruct (shape_ok_inv _ _ H) as (Hr & Hl & Hn & Hs). split.
  - specialize (Hs 0%nat). rewrite Hl in Hs. rewrite sz_uniform in Hs by lia. apply Hs. lia.
  - unfold shape_ok. rewrite Hr. unfold uniform at 1. rewrite repeat_length, Nat.eqb_refl.
    apply Nat.eqb_neq in Hn. rewrite Hn. cbn [negb andb]. apply forallb_forall. intros x Hx.
    apply repeat_spec in Hx. subst x. reflexivity.
Qed.

(* BorderRelocator(mask, sub_size = s): each sub-border index is in its border pixel's range and farthest from the
   centre of the bounding box of the unmasked PIXEL centres, i.e. of the unmasked region *)
Theorem sub_border_uniform m s : shape_ok m (uniform m s) = true ->
  exists out cc,
    @sub_border_pixel_slim_indexes_from ROps m (uniform m s) = Ok out /\
    bbox_centre_of (@unit_grid ROps m (uniform m 1)) cc /\
    Forall2 (fun bp k =>
        (bp < total_pixels_2d_from m)%nat /\
        (bp * (s * s) <= k < bp * (s * s) + s * s)%nat /\
        forall k', (bp * (s * s) <= k' < bp * (s * s) + s * s)%nat ->
          dist (nth k' (@unit_grid ROps m (uniform m s)) (0, 0)) cc <= dist (nth k (@unit_grid ROps m (uniform m s)) (0, 0)) cc)
      (border_slim_spec m) out.
Proof.
  intros H. destruct (shape_ok_uniform m s H) as [Hs H1].
  destruct (sub_border_farthest_in_range m _ H) as (out & cc & Hout & Hcc & HF).
  destruct (centre_total _ (unit_grid_ne m _ H1)) as [cc1 Hc1]. apply centre_spec in Hc1.
  pose proof (uniform_centre m s Hs cc cc1 Hcc Hc1) as E. subst cc1.
  exists out, cc. split; [exact Hout|]. split; [exact Hc1|].
  eapply Forall2_imp; [|exact HF]. cbv beta. intros bp k (Hlt & Hk & Hmax).
  assert (Hoff : sub_offset (uniform m s) bp = (bp * (s * s))%nat).
  { unfold sub_offset. rewrite length_flat_map.
    rewrite (map_ext_in _ (fun _ => (s * s)%nat)).
    - rewrite list_sum_const, seq_length. reflexivity.
    - intros j Hj. apply in_seq in Hj. rewrite repeat_length, sz_uniform by lia. reflexivity. }
  rewrite Hoff, (sz_uniform m s bp Hlt) in *. auto.
Qed.
