(* C03 -- proofs about the simulator clause of Model/C03.v (SimulatorImaging noise-free path, Imaging.apply_mask)
   at the reals: the simulated data is the whole-frame convolution (plus the sky when it is not subtracted), and
   the masked dataset is reproduced with zero residual by the masked convolution of the generating image. *)
From Coq Require Import ZArith Reals Lra Lia List Bool Arith ZifyBool.
From PAV Require Import Base.Res Base.Check Base.NumOps Base.Sum Model.C03 Model.C03Lib Proofs.C03.
Import ListNotations.
Local Open Scope Z_scope.

Notation RK := (list (list R)).

Lemma filter_all_true {B} (f : B -> bool) l : (forall x, In x l -> f x = true) -> filter f l = l.
Proof.
  induction l as [|a l IH]; intros H; [reflexivity|]. cbn [filter]. rewrite (H a (or_introl eq_refl)).
  f_equal. apply IH. intros x Hx. apply H. now right.
Qed.

Lemma allfalse_rows {B} (g : list (list B)) : rows (allfalse g) = rows g.
Proof. unfold rows, allfalse. now rewrite map_length. Qed.
Lemma allfalse_cols {B} (g : list (list B)) : cols (allfalse g) = cols g.
Proof. unfold cols, allfalse. destruct g as [|r t]; [reflexivity|]. cbn [map hd]. now rewrite map_length. Qed.
Lemma allfalse_inframe {B} (g : list (list B)) p : inframe (allfalse g) p = inframe g p.
Proof. unfold inframe. now rewrite allfalse_rows, allfalse_cols. Qed.
Lemma allfalse_all_px {B} (g : list (list B)) : all_px (allfalse g) = all_px g.
Proof. unfold all_px. now rewrite allfalse_rows, allfalse_cols. Qed.

Lemma allfalse_mz {B} (g : list (list B)) p : rectb g = true -> inframe g p = true -> mz (allfalse g) p = false.
Proof.
  intros Hr Hp. apply mz_false. split; [now rewrite allfalse_inframe|].
  destruct p as [y x]. unfold inframe, rows, cols in Hp. cbn [fst snd] in Hp.
  unfold getZ, allfalse. cbn [fst snd].
  assert (Hy : (Z.to_nat y < length g)%nat) by lia.
  rewrite (nth_map_lt (map (fun _ : B => false)) g (Z.to_nat y) [] []) by exact Hy.
  pose proof (rect_nth_len g (Z.to_nat y) Hr Hy) as Hl.
  assert (Hx : (Z.to_nat x < length (nth (Z.to_nat y) g []))%nat) by lia.
  destruct (nth (Z.to_nat y) g []) as [|b0 r0] eqn:E; [cbn in Hx; lia|].
  now rewrite (nth_map_lt (fun _ : B => false) (b0 :: r0) (Z.to_nat x) b0 true) by exact Hx.
Qed.

Lemma unmasked_allfalse {B} (g : list (list B)) : rectb g = true -> unmasked (allfalse g) = all_px g.
Proof.
  intros Hr. unfold unmasked. rewrite allfalse_all_px. apply filter_all_true.
  intros p Hp. apply in_all_px in Hp. now rewrite (allfalse_mz g p Hr Hp).
Qed.

Lemma sim_psf_rows normalize (K : RK) : rows (@sim_psf ROps normalize K) = rows K.
Proof. unfold sim_psf, normalized, rows. destruct normalize; [now rewrite map_length | reflexivity]. Qed.
Lemma sim_psf_cols normalize (K : RK) : cols (@sim_psf ROps normalize K) = cols K.
Proof.
  unfold sim_psf, normalized, cols. destruct normalize; [|reflexivity].
  destruct K as [|r t]; [reflexivity|]. cbn [map hd]. now rewrite map_length.
Qed.

(* the simulated data of a noise-free simulation: even kernels rejected; otherwise, pixel by pixel over the whole
   frame, the true convolution of the input image with the (optionally normalised) PSF -- plus the sky level
   exactly when the sky is not subtracted.  For every sky level. *)
Theorem simulate_cases (sky : R) subtract normalize (g : RK) (K : RK) : rectb g = true ->
  @simulate ROps sky subtract normalize g K =
  if oddb (rows K) && oddb (cols K)
  then Ok (map (fun p => (@conv_full ROps (@img_fun ROps g) (@sim_psf ROps normalize K) p
                          + (if subtract then 0 else sky))%R) (all_px g))
  else Raise KernelException.
Proof.
  intros Hr. unfold simulate. rewrite whole_checked_cases, sim_psf_rows, sim_psf_cols.
  destruct (oddb (rows K) && oddb (cols K)); [|reflexivity].
  rewrite (@unmasked_allfalse (T ROps) g Hr), map_map. f_equal. apply map_ext. intros p.
  cbn [T ROps add sub]. destruct subtract; lra.
Qed.

Lemma same_shape_inframe {A B} (g : list (list A)) (m : list (list B)) p :
  same_shape g m = true -> inframe g p = inframe m p.
Proof.
  unfold same_shape. intros H. apply andb_true_iff in H. destruct H as [H1 H2]. apply Nat.eqb_eq in H1.
  unfold inframe, rows, cols. rewrite H1.
  assert (Hc : length (hd [] g) = length (hd [] m)).
  { destruct g as [|r t].
    - destruct m; [reflexivity | discriminate H1].
    - cbn [forallb] in H2. apply andb_true_iff in H2. destruct H2 as [H2 _]. now apply Nat.eqb_eq in H2. }
  now rewrite Hc.
Qed.

(* the masked dataset of a sky-subtracted noise-free simulation equals the masked convolution (the convolver built
   from the mask and the dataset's PSF) of the generating image's values on the mask and on the blurring region *)
Theorem simulate_masked_agrees (sky : R) normalize (g K : RK) data m c :
  rectb g = true -> rectb m = true -> same_shape g m = true ->
  @simulate ROps sky true normalize g K = Ok data ->
  @convolver_init ROps m (@sim_psf ROps normalize K) = Ok c ->
  @masked_data ROps _ g data m =
  @convolve ROps c (@slim_of ROps g (unmasked m)) (@slim_of ROps g (unmasked (bmask c))).
Proof.
  intros Hg Hm Hs Hsim Hc. rewrite (simulate_cases sky true normalize g K Hg) in Hsim.
  destruct (oddb (rows K) && oddb (cols K)); [|discriminate Hsim].
  injection Hsim as <-. rewrite <- (whole_frame_agrees m _ c g Hm Hc).
  unfold masked_data, convolved_array. apply map_ext_in. intros p Hp.
  rewrite lookup_map.
  - lra.
  - apply in_all_px. rewrite (same_shape_inframe g m p Hs). apply in_unmasked, mz_false in Hp. tauto.
Qed.

Theorem simulate_zero_residual (sky : R) normalize (g K : RK) data m c k :
  rectb g = true -> rectb m = true -> same_shape g m = true ->
  @simulate ROps sky true normalize g K = Ok data ->
  @convolver_init ROps m (@sim_psf ROps normalize K) = Ok c ->
  (nth k (@masked_data ROps _ g data m) 0 -
   nth k (@convolve ROps c (@slim_of ROps g (unmasked m)) (@slim_of ROps g (unmasked (bmask c)))) 0 = 0)%R.
Proof. intros Hg Hm Hs Hsim Hc. rewrite (simulate_masked_agrees sky normalize g K data m c Hg Hm Hs Hsim Hc). lra. Qed.

(* ---- one-hot (basis / unit-shift) kernels: the convolution is a shift of the image scaled by the entry ---- *)
Lemma NoDup_kcells (K : RK) : NoDup (kcells K).
Proof. unfold kcells. apply NoDup_list_prod; apply NoDup_seqZ. Qed.
Lemma in_kcells (K : RK) ij : In ij (kcells K) <-> (0 <= fst ij < rows K /\ 0 <= snd ij < cols K).
Proof. unfold kcells. destruct ij as [i j]. rewrite in_prod_iff, !in_seqZ. cbn [fst snd]. lia. Qed.

Theorem conv_full_one_hot (N : px -> R) (K : RK) ab c t :
  @one_hot ROps K ab c -> @conv_full ROps N K t = (c * N (@shift_src ROps K t ab))%R.
Proof.
  intros (Hin0 & Hc & Hz0). rewrite conv_full_cells. change (getZ (@zero ROps) K ab) with (kval K ab) in Hc.
  assert (Hin : In ab (kcells K)) by (apply in_kcells; exact Hin0).
  assert (Hz : forall ij, In ij (kcells K) -> ij <> ab -> kval K ij = 0%R) by (intros ij Hi Hne; apply (Hz0 ij); [apply in_kcells; exact Hi | exact Hne]).
  change (@shift_src ROps K t ab) with (@shift_src ROps K t ab).
  rewrite (sumR_map_ext _ (fun s => if px_eqb s ab then (kval K s * N (src K t s))%R else 0%R)).
  - rewrite (sumR_indicator px_eqb (fun s => (kval K s * N (src K t s))%R) ab (kcells K) px_eqb_eq (NoDup_kcells K)).
    replace (existsb (fun s => px_eqb s ab) (kcells K)) with true; [now rewrite Hc|].
    symmetry. apply existsb_exists. exists ab. split; [exact Hin | apply px_eqb_refl].
  - intros s Hs. destruct (px_eqb s ab) eqn:E; [reflexivity|]. apply px_eqb_neq in E. rewrite (Hz s Hs E). lra.
Qed.

(* the whole-frame method with a one-hot kernel of odd shape: the image shifted by (centre - position), times the entry *)
Theorem whole_one_hot m (g : RK) (K : RK) ab c :
  oddb (rows K) && oddb (cols K) = true -> @one_hot ROps K ab c ->
  @convolved_array_checked ROps m g K =
  Ok (map (fun t => (c * @img_fun ROps g (@shift_src ROps K t ab))%R) (unmasked m)).
Proof.
  intros Ho H1. rewrite whole_checked_cases, Ho. f_equal. apply map_ext. intros t.
  now rewrite (conv_full_one_hot _ K ab c t H1).
Qed.

(* the masked convolver with a one-hot kernel: the combined image shifted, times the entry *)
Theorem convolve_one_hot m (K : RK) cv (img bimg : list R) ab c :
  rectb m = true -> @convolver_init ROps m K = Ok cv ->
  length img = length (unmasked m) -> length bimg = length (unmasked (bmask cv)) -> @one_hot ROps K ab c ->
  @convolve ROps cv img bimg =
  map (fun t => (c * @combined ROps m (bmask cv) img bimg (@shift_src ROps K t ab))%R) (unmasked m).
Proof.
  intros Hr Hc Hl Hb H1. rewrite (convolve_eq_map m K cv img bimg Hr Hc Hl Hb). apply map_ext. intros t.
  now rewrite (conv_full_one_hot _ K ab c t H1).
Qed.

(* a unit one-hot kernel leaves every image unchanged ONLY when its entry sits at the centre: for an off-centre position
   there is, at every pixel, an image that the convolution changes (so "one non-zero entry and sum 1" is not "no blur") *)
Theorem unit_kernel_identity_iff_centred (K : RK) ab :
  @one_hot ROps K ab 1%R ->
  ((forall (N : px -> R) t, @conv_full ROps N K t = N t) <-> ab = (rows K / 2, cols K / 2)).
Proof.
  intros H1. split.
  - intros Hid. pose (N := fun q : px => if px_eqb q (0, 0) then 1%R else 0%R).
    specialize (Hid N (0, 0)). rewrite (conv_full_one_hot N K ab 1%R _ H1) in Hid.
    unfold N in Hid. cbv beta in Hid. rewrite (px_eqb_refl (0, 0)) in Hid.
    destruct (px_eqb (@shift_src ROps K (0, 0) ab) (0, 0)) eqn:E.
    + apply px_eqb_eq in E. unfold shift_src in E. destruct ab as [a b]. cbn [fst snd] in E. inversion E. f_equal; lia.
    + lra.
  - intros -> N t. rewrite (conv_full_one_hot N K _ 1%R t H1).
    assert (E : @shift_src ROps K t (rows K / 2, cols K / 2) = t).
    { unfold shift_src; destruct t as [y x]; cbn [fst snd T ROps]. f_equal; lia. }
    rewrite E. lra.
Qed.

(* non-vacuity witness: the 3x3 kernel with the 1 at [1,2] *)
Lemma one_hot_example : @one_hot ROps [[0; 0; 0]; [0; 0; 1]; [0; 0; 0]]%R (1, 2) 1%R.
Proof.
  split; [vm_compute; repeat split; discriminate|]. split; [reflexivity|].
  intros [i j] [Hi Hj] Hne. cbn [fst snd] in Hi, Hj.
  change (rows [[0; 0; 0]; [0; 0; 1]; [0; 0; 0]]%R) with 3 in Hi. change (cols [[0; 0; 0]; [0; 0; 1]; [0; 0; 0]]%R) with 3 in Hj.
  assert (Hc : (i = 0 \/ i = 1 \/ i = 2) /\ (j = 0 \/ j = 1 \/ j = 2)) by lia.
  destruct Hc as [[Ei | [Ei | Ei]] [Ej | [Ej | Ej]]]; subst i j; try reflexivity. now elim Hne.
Qed.
